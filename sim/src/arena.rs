//! The memory seam: a fixed-address arena serving every managed allocation of the runtime.
//!
//! The global allocator of the worker sends an allocation here when the runtime has tagged it as a
//! managed object (`laythe_core::verif::ManagedAlloc`), everything else goes to the system allocator.
//! The arena is reset between runs so the address of the n-th managed allocation is a pure function
//! of the run, it keeps its own books (size, alignment and liveness of every block) in a side table
//! it never shares with the runtime, poisons freed blocks and decides, per policy, if and when an
//! address is handed out again.

use std::alloc::{GlobalAlloc, Layout, System};
use std::cell::UnsafeCell;

pub const ARENA_BASE: usize = 0x2000_0000_0000;
pub const ARENA_SIZE: usize = 8 << 30;
pub const TABLE_BASE: usize = 0x2100_0000_0000;
pub const GRANULE: usize = 16;
pub const POISON: u8 = 0xDF;

/// At most this much of the arena may be used by one run
pub const RUN_LIMIT: usize = 256 << 20;

const TABLE_ENTRY: usize = 16;
const TABLE_SIZE: usize = ARENA_SIZE / GRANULE * TABLE_ENTRY;
const CLASSES: usize = 8192;
const MAX_ERRORS: usize = 32;

#[derive(Clone, Copy, PartialEq, Eq, Debug)]
pub enum Policy {
  /// Never reuse an address within a run, poison freed blocks
  Quarantine,

  /// The next allocation of a layout gets the most recently freed block of that layout
  EagerReuse,

  /// Seeded choice between a fresh block and one of the most recently freed blocks of the layout
  SeededReuse,
}

#[repr(C)]
#[derive(Clone, Copy)]
struct Entry {
  size: u32,
  seq: u32,
  next_free: u32,
  align: u16,
  /// 0 unused, 1 live, 2 freed
  state: u8,
  _pad: u8,
}

#[derive(Clone, Copy, Debug)]
pub struct ArenaError {
  pub kind: &'static str,
  pub address: usize,
  pub expected_size: usize,
  pub expected_align: usize,
  pub got_size: usize,
  pub got_align: usize,
  pub seq: u32,
}

#[derive(Clone, Copy)]
struct Class {
  key: u64,
  head: u32,
}

pub struct ArenaState {
  mapped: bool,
  pub active: bool,
  pub policy: Policy,
  rng: u64,
  bump: usize,
  origin: usize,
  high_water: usize,
  dummy_every: u32,
  pub seq: u32,
  pub live_blocks: usize,
  pub live_bytes: usize,
  pub total_allocs: u64,
  pub total_frees: u64,
  pub reused: u64,
  pub errors: [Option<ArenaError>; MAX_ERRORS],
  pub error_count: usize,
  classes: [Class; CLASSES],
  pub exhausted: bool,
}

pub struct Arena(UnsafeCell<ArenaState>);

// the worker runs the simulation on a single thread
unsafe impl Sync for Arena {}

pub static ARENA: Arena = Arena(UnsafeCell::new(ArenaState {
  mapped: false,
  active: false,
  policy: Policy::Quarantine,
  rng: 1,
  bump: ARENA_BASE,
  origin: ARENA_BASE,
  high_water: ARENA_BASE,
  dummy_every: 0,
  seq: 0,
  live_blocks: 0,
  live_bytes: 0,
  total_allocs: 0,
  total_frees: 0,
  reused: 0,
  errors: [None; MAX_ERRORS],
  error_count: 0,
  classes: [Class { key: 0, head: 0 }; CLASSES],
  exhausted: false,
}));

#[inline]
pub fn in_arena(ptr: *const u8) -> bool {
  let address = ptr as usize;
  (ARENA_BASE..ARENA_BASE + ARENA_SIZE).contains(&address)
}

impl Arena {
  #[allow(clippy::mut_from_ref)]
  #[inline]
  pub fn state(&self) -> &mut ArenaState {
    unsafe { &mut *self.0.get() }
  }
}

impl ArenaState {
  /// Map the arena and its side table. Returns false if the fixed addresses are not available
  pub fn map(&mut self) -> bool {
    if self.mapped {
      return true;
    }
    unsafe {
      let flags = libc::MAP_PRIVATE | libc::MAP_ANONYMOUS | libc::MAP_NORESERVE | libc::MAP_FIXED_NOREPLACE;
      let prot = libc::PROT_READ | libc::PROT_WRITE;
      let arena = libc::mmap(ARENA_BASE as *mut _, ARENA_SIZE, prot, flags, -1, 0);
      if arena as usize != ARENA_BASE {
        return false;
      }
      let table = libc::mmap(TABLE_BASE as *mut _, TABLE_SIZE, prot, flags, -1, 0);
      if table as usize != TABLE_BASE {
        return false;
      }
    }
    self.mapped = true;
    true
  }

  /// Forget everything about the previous run
  pub fn reset(&mut self, policy: Policy, seed: u64, shift_granules: usize, dummy_every: u32) {
    assert!(self.mapped);
    let used = self.high_water - ARENA_BASE;
    if used > 0 {
      unsafe {
        libc::madvise(ARENA_BASE as *mut _, used, libc::MADV_DONTNEED);
        libc::madvise(
          TABLE_BASE as *mut _,
          used / GRANULE * TABLE_ENTRY,
          libc::MADV_DONTNEED,
        );
      }
    }
    self.policy = policy;
    self.rng = seed | 1;
    self.origin = ARENA_BASE + shift_granules * GRANULE;
    self.bump = self.origin;
    self.high_water = self.origin;
    self.dummy_every = dummy_every;
    self.seq = 0;
    self.live_blocks = 0;
    self.live_bytes = 0;
    self.total_allocs = 0;
    self.total_frees = 0;
    self.reused = 0;
    self.errors = [None; MAX_ERRORS];
    self.error_count = 0;
    self.exhausted = false;
    for class in self.classes.iter_mut() {
      *class = Class { key: 0, head: 0 };
    }
  }

  #[inline]
  fn entry(&self, address: usize) -> &mut Entry {
    let index = (address - ARENA_BASE) / GRANULE;
    unsafe { &mut *((TABLE_BASE + index * TABLE_ENTRY) as *mut Entry) }
  }

  fn next_random(&mut self) -> u64 {
    // xorshift64*
    let mut x = self.rng;
    x ^= x >> 12;
    x ^= x << 25;
    x ^= x >> 27;
    self.rng = x;
    x.wrapping_mul(0x2545_F491_4F6C_DD1D)
  }

  fn class_slot(&mut self, size: usize, align: usize) -> Option<usize> {
    let key = ((size as u64) << 8 | align as u64) + 1;
    let mut slot = (key.wrapping_mul(0x9E37_79B9_7F4A_7C15) >> 40) as usize % CLASSES;
    for _ in 0..64 {
      if self.classes[slot].key == key {
        return Some(slot);
      }
      if self.classes[slot].key == 0 {
        self.classes[slot].key = key;
        return Some(slot);
      }
      slot = (slot + 1) % CLASSES;
    }
    None
  }

  fn record(&mut self, error: ArenaError) {
    if self.error_count < MAX_ERRORS {
      self.errors[self.error_count] = Some(error);
    }
    self.error_count += 1;
  }

  fn bump_alloc(&mut self, size: usize, align: usize) -> *mut u8 {
    let align = align.max(GRANULE);
    let start = (self.bump + align - 1) & !(align - 1);
    let end = start + ((size.max(1) + GRANULE - 1) & !(GRANULE - 1));
    if end > self.origin + RUN_LIMIT || end > ARENA_BASE + ARENA_SIZE {
      self.exhausted = true;
      return std::ptr::null_mut();
    }
    self.bump = end;
    if end > self.high_water {
      self.high_water = end;
    }
    start as *mut u8
  }

  pub fn alloc(&mut self, layout: Layout) -> *mut u8 {
    let size = layout.size();
    let align = layout.align();

    if self.dummy_every > 0 && self.total_allocs % self.dummy_every as u64 == self.dummy_every as u64 - 1 {
      // address perturbation: leave a hole
      self.bump_alloc(GRANULE * (1 + (self.total_allocs as usize % 3)), GRANULE);
    }

    let mut block: *mut u8 = std::ptr::null_mut();

    if self.policy != Policy::Quarantine {
      if let Some(slot) = self.class_slot(size, align) {
        let head = self.classes[slot].head;
        if head != 0 {
          let take = match self.policy {
            Policy::EagerReuse => Some(0),
            Policy::SeededReuse => match self.next_random() % 4 {
              0 => None,
              n => Some((n - 1) as usize),
            },
            Policy::Quarantine => None,
          };

          if let Some(steps) = take {
            // walk down the free list of this class
            let mut previous: u32 = 0;
            let mut current = head;
            for _ in 0..steps {
              let next = self.entry(ARENA_BASE + current as usize * GRANULE).next_free;
              if next == 0 {
                break;
              }
              previous = current;
              current = next;
            }

            let address = ARENA_BASE + current as usize * GRANULE;
            let next = self.entry(address).next_free;
            if previous == 0 {
              self.classes[slot].head = next;
            } else {
              self.entry(ARENA_BASE + previous as usize * GRANULE).next_free = next;
            }
            block = address as *mut u8;
            self.reused += 1;
          }
        }
      }
    }

    if block.is_null() {
      block = self.bump_alloc(size, align);
      if block.is_null() {
        return block;
      }
    }

    self.seq += 1;
    let seq = self.seq;
    let entry = self.entry(block as usize);
    entry.size = size as u32;
    entry.align = align as u16;
    entry.state = 1;
    entry.seq = seq;
    entry.next_free = 0;

    self.live_blocks += 1;
    self.live_bytes += size;
    self.total_allocs += 1;
    block
  }

  pub fn dealloc(&mut self, ptr: *mut u8, layout: Layout) {
    let address = ptr as usize;
    if address % GRANULE != 0 || address < self.origin || address >= self.bump {
      self.record(ArenaError {
        kind: "foreign_free",
        address,
        expected_size: 0,
        expected_align: 0,
        got_size: layout.size(),
        got_align: layout.align(),
        seq: 0,
      });
      return;
    }

    let entry = *self.entry(address);
    match entry.state {
      1 => (),
      2 => {
        self.record(ArenaError {
          kind: "double_free",
          address,
          expected_size: entry.size as usize,
          expected_align: entry.align as usize,
          got_size: layout.size(),
          got_align: layout.align(),
          seq: entry.seq,
        });
        return;
      },
      _ => {
        self.record(ArenaError {
          kind: "foreign_free",
          address,
          expected_size: 0,
          expected_align: 0,
          got_size: layout.size(),
          got_align: layout.align(),
          seq: 0,
        });
        return;
      },
    }

    if entry.size as usize != layout.size() || entry.align as usize != layout.align() {
      self.record(ArenaError {
        kind: "layout_mismatch",
        address,
        expected_size: entry.size as usize,
        expected_align: entry.align as usize,
        got_size: layout.size(),
        got_align: layout.align(),
        seq: entry.seq,
      });
    }

    // the size comes from our own books, never from the caller
    let size = entry.size as usize;
    unsafe { std::ptr::write_bytes(ptr, POISON, size.max(1)) };

    self.live_blocks -= 1;
    self.live_bytes -= size;
    self.total_frees += 1;

    let mut next_free = 0;
    if self.policy != Policy::Quarantine {
      if let Some(slot) = self.class_slot(size, entry.align as usize) {
        next_free = self.classes[slot].head;
        self.classes[slot].head = ((address - ARENA_BASE) / GRANULE) as u32;
      }
    }

    let entry = self.entry(address);
    entry.state = 2;
    entry.next_free = next_free;
  }

  /// Is there a live block of exactly this size at this address
  pub fn live_block(&self, address: usize) -> Option<(usize, u32)> {
    if address % GRANULE != 0 || address < self.origin || address >= self.bump {
      return None;
    }
    let entry = self.entry(address);
    if entry.state == 1 {
      Some((entry.size as usize, entry.seq))
    } else {
      None
    }
  }

  /// What do we know about the block containing this address
  pub fn describe(&self, address: usize) -> String {
    if address < self.origin || address >= self.bump {
      return format!("{:#x}: outside the used arena", address);
    }
    let mut start = address & !(GRANULE - 1);
    for _ in 0..(1 << 16) {
      let entry = self.entry(start);
      if entry.state != 0 {
        return format!(
          "{:#x}: offset {} in block seq {} size {} state {}",
          address,
          address - start,
          entry.seq,
          entry.size,
          if entry.state == 1 { "live" } else { "freed" }
        );
      }
      if start == self.origin {
        break;
      }
      start -= GRANULE;
    }
    format!("{:#x}: no block found", address)
  }

  pub fn used_bytes(&self) -> usize {
    self.bump - self.origin
  }
}

pub struct SimAlloc;

/// Bytes currently obtained from the system allocator (everything that is not a managed block: the tables, vectors
/// and boxes owned by managed objects and by the VM, and the worker's own bookkeeping). Signed: a block may be released
/// by another thread than the one that obtained it.
pub static SYSTEM_LIVE_BYTES: std::sync::atomic::AtomicIsize = std::sync::atomic::AtomicIsize::new(0);

pub fn system_live_bytes() -> isize {
  SYSTEM_LIVE_BYTES.load(std::sync::atomic::Ordering::Relaxed)
}

unsafe impl GlobalAlloc for SimAlloc {
  #[inline]
  unsafe fn alloc(&self, layout: Layout) -> *mut u8 {
    if laythe_core::verif::managed_alloc_active() {
      let arena = ARENA.state();
      if arena.active {
        return arena.alloc(layout);
      }
    }
    let ptr = System.alloc(layout);
    if !ptr.is_null() {
      SYSTEM_LIVE_BYTES.fetch_add(layout.size() as isize, std::sync::atomic::Ordering::Relaxed);
    }
    ptr
  }

  #[inline]
  unsafe fn dealloc(&self, ptr: *mut u8, layout: Layout) {
    if in_arena(ptr) {
      ARENA.state().dealloc(ptr, layout);
    } else {
      SYSTEM_LIVE_BYTES.fetch_sub(layout.size() as isize, std::sync::atomic::Ordering::Relaxed);
      System.dealloc(ptr, layout)
    }
  }

  #[inline]
  unsafe fn alloc_zeroed(&self, layout: Layout) -> *mut u8 {
    let ptr = self.alloc(layout);
    if !ptr.is_null() && in_arena(ptr) {
      std::ptr::write_bytes(ptr, 0, layout.size());
      ptr
    } else if !ptr.is_null() {
      std::ptr::write_bytes(ptr, 0, layout.size());
      ptr
    } else {
      ptr
    }
  }

  #[inline]
  unsafe fn realloc(&self, ptr: *mut u8, layout: Layout, new_size: usize) -> *mut u8 {
    if in_arena(ptr) {
      let new_layout = Layout::from_size_align_unchecked(new_size, layout.align());
      let new_ptr = ARENA.state().alloc(new_layout);
      if !new_ptr.is_null() {
        std::ptr::copy_nonoverlapping(ptr, new_ptr, layout.size().min(new_size));
        ARENA.state().dealloc(ptr, layout);
      }
      new_ptr
    } else {
      let new_ptr = System.realloc(ptr, layout, new_size);
      if !new_ptr.is_null() {
        SYSTEM_LIVE_BYTES.fetch_add(new_size as isize - layout.size() as isize, std::sync::atomic::Ordering::Relaxed);
      }
      new_ptr
    }
  }
}
