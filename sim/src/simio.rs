//! The outside world of a simulated run: stdio, file system, environment and time, all in memory and
//! all driven by the job description. State lives in a thread local so the `Io` handles the runtime
//! clones around stay trivially `Send + Sync`.

use laythe_env::{
  env::{Env, EnvImpl},
  fs::{Fs, FsImpl, LyDirEntry},
  io::{Io, IoImpl},
  stdio::{Stdio, StdioImpl},
  time::{Time, TimeImpl},
};
use std::{
  cell::RefCell,
  collections::BTreeMap,
  io::{self, Read, Write},
  path::{Component, Path, PathBuf},
  sync::Arc,
  time::Duration,
};
use termcolor::WriteColor;

pub const OUTPUT_LIMIT: usize = 2_000_000;

/// Panic payload raised when a run writes more than `OUTPUT_LIMIT` bytes
#[derive(Debug)]
pub struct OutputLimit;

#[derive(Clone, Debug)]
pub struct FsFault {
  /// fail calls touching this path, any path if none
  pub path: Option<String>,

  /// read, write or remove
  pub op: String,

  /// fail the n-th matching call (0 based), every matching call if none
  pub nth: Option<u64>,

  /// not_found, permission_denied, invalid_utf8, other
  pub kind: String,
}

#[derive(Default)]
pub struct World {
  pub stdout: Vec<u8>,
  pub stderr: Vec<u8>,

  /// (offset into stdout, managed allocation index, instruction count) of each marker line
  pub marks: Vec<(usize, u64, u64)>,

  /// The scripted standard input
  pub stdin_lines: Vec<String>,
  pub stdin_cursor: usize,
  pub stdin_offset: usize,
  pub read_line_calls: u64,

  pub files: BTreeMap<String, Vec<u8>>,
  pub fs_faults: Vec<FsFault>,
  pub fs_calls: BTreeMap<String, u64>,
  pub fs_fired: Vec<String>,
  pub fs_log: Vec<String>,

  pub args: Vec<String>,
  pub clock_ms: u64,
}

thread_local! {
  pub static WORLD: RefCell<World> = RefCell::new(World::default());
}

pub fn with_world<R>(f: impl FnOnce(&mut World) -> R) -> R {
  WORLD.with(|world| f(&mut world.borrow_mut()))
}

fn normalize(path: &Path) -> String {
  let mut absolute = PathBuf::from("/");
  let joined = if path.is_absolute() {
    path.to_path_buf()
  } else {
    Path::new("/sim").join(path)
  };
  for component in joined.components() {
    match component {
      Component::RootDir | Component::Prefix(_) => absolute = PathBuf::from("/"),
      Component::CurDir => (),
      Component::ParentDir => {
        absolute.pop();
      },
      Component::Normal(part) => absolute.push(part),
    }
  }
  absolute.to_string_lossy().into_owned()
}

// --- stdio ---------------------------------------------------------------------------------

struct OutWriter {
  err: bool,
}

/// In a quiet job the program's output is counted and thrown away, so that the worker's own memory does not grow with
/// the length of the run (unmanaged-memory measurements)
pub static QUIET: std::sync::atomic::AtomicBool = std::sync::atomic::AtomicBool::new(false);

impl Write for OutWriter {
  fn write(&mut self, buf: &[u8]) -> io::Result<usize> {
    if QUIET.load(std::sync::atomic::Ordering::Relaxed) {
      return Ok(buf.len());
    }
    let over = with_world(|world| {
      if self.err {
        world.stderr.extend_from_slice(buf);
      } else {
        if buf.first() == Some(&b'#') && (world.stdout.is_empty() || world.stdout.last() == Some(&b'\n')) {
          let offset = world.stdout.len();
          world.marks.push((
            offset,
            laythe_core::verif::alloc_index(),
            laythe_core::verif::ticks(),
          ));
        }
        world.stdout.extend_from_slice(buf);
      }
      world.stdout.len() + world.stderr.len() > OUTPUT_LIMIT
    });
    if over {
      std::panic::panic_any(OutputLimit);
    }
    Ok(buf.len())
  }

  fn flush(&mut self) -> io::Result<()> {
    Ok(())
  }
}

impl WriteColor for OutWriter {
  fn supports_color(&self) -> bool {
    false
  }

  fn set_color(&mut self, _: &termcolor::ColorSpec) -> io::Result<()> {
    Ok(())
  }

  fn reset(&mut self) -> io::Result<()> {
    Ok(())
  }
}

struct InReader;

impl Read for InReader {
  fn read(&mut self, buf: &mut [u8]) -> io::Result<usize> {
    with_world(|world| {
      let mut written = 0;
      while written < buf.len() && world.stdin_cursor < world.stdin_lines.len() {
        let line = world.stdin_lines[world.stdin_cursor].as_bytes();
        let rest = &line[world.stdin_offset..];
        let count = rest.len().min(buf.len() - written);
        buf[written..written + count].copy_from_slice(&rest[..count]);
        written += count;
        world.stdin_offset += count;
        if world.stdin_offset == line.len() {
          world.stdin_cursor += 1;
          world.stdin_offset = 0;
        }
      }
      Ok(written)
    })
  }
}

struct SimStdio {
  out: OutWriter,
  err: OutWriter,
  input: InReader,
}

impl StdioImpl for SimStdio {
  fn stdout(&mut self) -> &mut dyn Write {
    &mut self.out
  }

  fn stderr(&mut self) -> &mut dyn Write {
    &mut self.err
  }

  fn stderr_color(&mut self) -> &mut dyn WriteColor {
    &mut self.err
  }

  fn stdin(&mut self) -> &mut dyn Read {
    &mut self.input
  }

  fn read_line(&self, buffer: &mut String) -> io::Result<usize> {
    with_world(|world| {
      world.read_line_calls += 1;
      if world.stdin_cursor < world.stdin_lines.len() {
        let line = &world.stdin_lines[world.stdin_cursor][world.stdin_offset..];
        buffer.push_str(line);
        let len = line.len();
        world.stdin_cursor += 1;
        world.stdin_offset = 0;
        Ok(len)
      } else {
        Ok(0)
      }
    })
  }
}

#[derive(Debug)]
struct IoSimStdio;

impl IoImpl<Stdio> for IoSimStdio {
  fn make(&self) -> Stdio {
    Stdio::new(Box::new(SimStdio {
      out: OutWriter { err: false },
      err: OutWriter { err: true },
      input: InReader,
    }))
  }
}

// --- file system ---------------------------------------------------------------------------

struct SimFs;

fn fault_for(world: &mut World, op: &str, path: &str) -> Option<io::Error> {
  let counter_key = format!("{op}:{path}");
  let call = {
    let counter = world.fs_calls.entry(counter_key).or_insert(0);
    let call = *counter;
    *counter += 1;
    call
  };
  let any_key = format!("{op}:*");
  let any_call = {
    let counter = world.fs_calls.entry(any_key).or_insert(0);
    let call = *counter;
    *counter += 1;
    call
  };
  world.fs_log.push(format!("{op} {path}"));

  for fault in &world.fs_faults {
    if fault.op != op {
      continue;
    }
    let (matches, index) = match &fault.path {
      Some(fault_path) => (fault_path == path, call),
      None => (true, any_call),
    };
    if !matches {
      continue;
    }
    if let Some(nth) = fault.nth {
      if nth != index {
        continue;
      }
    }
    world.fs_fired.push(format!("{op} {path} {}", fault.kind));
    let kind = match fault.kind.as_str() {
      "not_found" => io::ErrorKind::NotFound,
      "permission_denied" => io::ErrorKind::PermissionDenied,
      "invalid_utf8" => io::ErrorKind::InvalidData,
      _ => io::ErrorKind::Other,
    };
    return Some(io::Error::new(kind, format!("simulated {}", fault.kind)));
  }
  None
}

impl FsImpl for SimFs {
  fn write_file(&self, path: &Path, contents: &str) -> io::Result<()> {
    let path = normalize(path);
    with_world(|world| {
      if let Some(error) = fault_for(world, "write", &path) {
        return Err(error);
      }
      world.files.insert(path, contents.as_bytes().to_vec());
      Ok(())
    })
  }

  fn read_file(&self, path: &Path) -> io::Result<String> {
    let path = normalize(path);
    with_world(|world| {
      if let Some(error) = fault_for(world, "read", &path) {
        return Err(error);
      }
      match world.files.get(&path) {
        Some(bytes) => String::from_utf8(bytes.clone())
          .map_err(|_| io::Error::new(io::ErrorKind::InvalidData, "stream did not contain valid UTF-8")),
        None => Err(io::Error::new(
          io::ErrorKind::NotFound,
          "No such file or directory (os error 2)",
        )),
      }
    })
  }

  fn remove_file(&self, path: &Path) -> io::Result<()> {
    let path = normalize(path);
    with_world(|world| {
      if let Some(error) = fault_for(world, "remove", &path) {
        return Err(error);
      }
      match world.files.remove(&path) {
        Some(_) => Ok(()),
        None => Err(io::Error::new(
          io::ErrorKind::NotFound,
          "No such file or directory (os error 2)",
        )),
      }
    })
  }

  fn read_directory(&self, _path: &Path) -> io::Result<Vec<Box<dyn LyDirEntry>>> {
    Ok(vec![])
  }

  fn canonicalize(&self, path: &Path) -> io::Result<PathBuf> {
    let normal = normalize(path);
    with_world(|world| {
      let is_file = world.files.contains_key(&normal);
      let prefix = format!("{}/", normal.trim_end_matches('/'));
      let is_dir = normal == "/" || world.files.keys().any(|file| file.starts_with(&prefix));
      if is_file || is_dir {
        Ok(PathBuf::from(normal))
      } else {
        Err(io::Error::new(
          io::ErrorKind::NotFound,
          "No such file or directory (os error 2)",
        ))
      }
    })
  }

  fn relative_path(&self, base: &Path, import: &Path) -> io::Result<PathBuf> {
    import
      .strip_prefix(base)
      .map(|prefix| prefix.to_path_buf())
      .map_err(|err| io::Error::new(io::ErrorKind::InvalidInput, err.to_string()))
  }
}

#[derive(Debug)]
struct IoSimFs;

impl IoImpl<Fs> for IoSimFs {
  fn make(&self) -> Fs {
    Fs::new(Box::new(SimFs))
  }
}

// --- env and time --------------------------------------------------------------------------

struct SimEnv;

impl EnvImpl for SimEnv {
  fn current_dir(&self) -> io::Result<PathBuf> {
    Ok(PathBuf::from("/sim"))
  }

  fn args(&self) -> Vec<String> {
    with_world(|world| world.args.clone())
  }
}

#[derive(Debug)]
struct IoSimEnv;

impl IoImpl<Env> for IoSimEnv {
  fn make(&self) -> Env {
    Env::new(Box::new(SimEnv))
  }
}

struct SimTime;

impl TimeImpl for SimTime {
  fn elapsed(&self) -> Result<Duration, String> {
    Ok(with_world(|world| {
      world.clock_ms += 1;
      Duration::from_millis(world.clock_ms)
    }))
  }
}

#[derive(Debug)]
struct IoSimTime;

impl IoImpl<Time> for IoSimTime {
  fn make(&self) -> Time {
    Time::new(Box::new(SimTime))
  }
}

pub fn sim_io() -> Io {
  Io::new(
    Arc::new(IoSimStdio),
    Arc::new(IoSimFs),
    Arc::new(IoSimEnv),
    Arc::new(IoSimTime),
  )
}
