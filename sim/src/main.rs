//! Simulation worker. Reads one job per line (JSON) from stdin, executes it in a fresh simulated
//! world (arena, stdio, file system, clock, collection schedule, cache switch) around the real Laythe
//! runtime and answers with one JSON record per job. Nothing in here draws randomness that is not
//! derived from the job, reads a real clock or touches the real file system.

mod arena;
mod simio;

use arena::{Policy, ARENA};
use laythe_core::verif::{self, GcDecision};
use laythe_core::Allocator;
use laythe_vm::vm::{Vm, VmExit};
use serde_json::{json, Map, Value};
use std::cell::RefCell;
use std::io::{BufRead, Write};
use std::mem::ManuallyDrop;
use std::panic::{catch_unwind, AssertUnwindSafe};
use std::path::PathBuf;

#[global_allocator]
static GLOBAL: arena::SimAlloc = arena::SimAlloc;

// --- collection schedule ---------------------------------------------------------------------

#[derive(Default)]
struct Schedule {
  kind: String,
  /// explicit (allocation index, mode) pairs, sorted. mode 1 nursery, 2 full, 3 full twice
  points: Vec<(u64, u8)>,
  cursor: usize,
  /// full, nursery or mixed
  mode: String,
  from: u64,
  until: u64,
  period: u64,
  p_num: u64,
  p_den: u64,
  q_num: u64,
  q_den: u64,
  rng: u64,
  windows: Vec<(u64, u64)>,
  decided: u64,

  /// fired collections as (allocation index of the allocation that triggered it, 1 nursery | 2 full)
  fired: Vec<(u64, u8)>,
  fired_total: u64,

  // accounting
  acct: bool,
  acct_checks: u64,
  acct_violations: Vec<String>,
  acct_samples: Vec<Value>,
  last_full: bool,
  frees_at_last_collection: u64,
  last_collection_index: u64,
  /// 2 while the first collection of a double collection is pending, 1 while the second is
  double_pending: u8,
  native: bool,
  /// fired_total at the last accounting evaluation (a sampled quiescent point has seen no collection since)
  evaluated_at_fired: u64,
  /// the byte threshold watch: first allocation index of the current run of allocations above the threshold
  over_since: Option<u64>,
  over_fired: u64,
  watch_from: u64,
  over_reported: bool,
}

thread_local! {
  static SCHEDULE: RefCell<Schedule> = RefCell::new(Schedule::default());
  static PANIC_MESSAGE: RefCell<Option<String>> = const { RefCell::new(None) };
}

fn next_random(state: &mut u64) -> u64 {
  let mut x = *state;
  x ^= x >> 12;
  x ^= x << 25;
  x ^= x >> 27;
  *state = x;
  x.wrapping_mul(0x2545_F491_4F6C_DD1D)
}

fn mode_decision(schedule: &mut Schedule) -> GcDecision {
  match schedule.mode.as_str() {
    "nursery" => GcDecision::Nursery,
    "mixed" => {
      schedule.decided += 1;
      if schedule.decided % 10 == 0 {
        GcDecision::Full
      } else {
        GcDecision::Nursery
      }
    },
    "seeded" => {
      if schedule.q_den > 0 && next_random(&mut schedule.rng) % schedule.q_den < schedule.q_num {
        GcDecision::Full
      } else {
        GcDecision::Nursery
      }
    },
    _ => GcDecision::Full,
  }
}

fn decide(index: u64, bytes: usize) -> GcDecision {
  let decision = decide_inner(index, bytes);
  let pending = if decision == GcDecision::FullTwice { 2 } else { 0 };
  SCHEDULE.with(|schedule| schedule.borrow_mut().double_pending = pending);
  decision
}

fn decide_inner(index: u64, _bytes: usize) -> GcDecision {
  SCHEDULE.with(|schedule| {
    let schedule = &mut *schedule.borrow_mut();
    match schedule.kind.as_str() {
      "native" => GcDecision::Native,
      "list" => {
        while schedule.cursor < schedule.points.len() && schedule.points[schedule.cursor].0 < index {
          schedule.cursor += 1;
        }
        if schedule.cursor < schedule.points.len() && schedule.points[schedule.cursor].0 == index {
          let mode = schedule.points[schedule.cursor].1;
          schedule.cursor += 1;
          // two full collections recorded at one index are one double collection
          if mode == 2
            && schedule.cursor < schedule.points.len()
            && schedule.points[schedule.cursor] == (index, 2)
          {
            schedule.cursor += 1;
            return GcDecision::FullTwice;
          }
          match mode {
            1 => GcDecision::Nursery,
            3 => GcDecision::FullTwice,
            _ => GcDecision::Full,
          }
        } else {
          GcDecision::Skip
        }
      },
      "every" => {
        if index < schedule.from || index >= schedule.until {
          return GcDecision::Skip;
        }
        if schedule.period > 1 && (index - schedule.from) % schedule.period != 0 {
          return GcDecision::Skip;
        }
        mode_decision(schedule)
      },
      "bernoulli" => {
        if index < schedule.from || index >= schedule.until {
          return GcDecision::Skip;
        }
        if next_random(&mut schedule.rng) % schedule.p_den.max(1) < schedule.p_num {
          mode_decision(schedule)
        } else {
          GcDecision::Skip
        }
      },
      "burst" => {
        if schedule.windows.iter().any(|(a, b)| index >= *a && index < *b) {
          mode_decision(schedule)
        } else {
          GcDecision::Skip
        }
      },
      _ => GcDecision::Skip,
    }
  })
}

fn collected(full: bool) {
  let index = verif::alloc_index().saturating_sub(1);
  let frees = ARENA.state().total_frees;
  SCHEDULE.with(|schedule| {
    let schedule = &mut *schedule.borrow_mut();
    schedule.fired_total += 1;
    if schedule.fired.len() < 20_000 && !simio::QUIET.load(std::sync::atomic::Ordering::Relaxed) {
      schedule.fired.push((index, if full { 2 } else { 1 }));
    }

    // the second collection of a double collection runs back to back with the first, nothing can have
    // become garbage in between, so it must not free anything
    if schedule.double_pending == 2 {
      schedule.double_pending = 1;
    } else if schedule.double_pending == 1 {
      schedule.double_pending = 0;
      if schedule.acct && frees != schedule.frees_at_last_collection {
        let message = format!(
          "full collection directly after a full collection at allocation {} freed {} blocks",
          index,
          frees - schedule.frees_at_last_collection
        );
        schedule.acct_violations.push(message);
      }
    }
    schedule.last_full = full;
    schedule.frees_at_last_collection = frees;
    schedule.last_collection_index = index;
  });
}

/// Under the shipped byte threshold policy an allocation that leaves the byte count above the threshold is followed by
/// a collection. The runtime cannot collect in a few contexts (start-up, parts of compilation), so only a long run of
/// allocations above the threshold without any collection counts
fn threshold_watch(index: u64, bytes_allocated: usize, next_gc: usize) {
  SCHEDULE.with(|schedule| {
    let schedule = &mut *schedule.borrow_mut();
    if !schedule.acct || !schedule.native || index < schedule.watch_from {
      return;
    }
    if bytes_allocated > next_gc {
      match schedule.over_since {
        Some(since) if schedule.over_fired == schedule.fired_total => {
          if index - since >= 300 && !schedule.over_reported {
            schedule.over_reported = true;
            schedule.acct_violations.push(format!(
              "byte count above the collection threshold for {} allocations in a row without a collection (allocation {}: {} bytes allocated, threshold {})",
              index - since, index, bytes_allocated, next_gc
            ));
          }
        },
        _ => {
          schedule.over_since = Some(index);
          schedule.over_fired = schedule.fired_total;
        },
      }
    } else {
      schedule.over_since = None;
    }
  });
}

fn stats_json(allocator: &Allocator) -> (Value, Vec<String>) {
  let stats = allocator.verif_stats();
  let arena = ARENA.state();
  let mut problems = vec![];

  let sum = stats.heap_bytes + stats.obj_bytes + stats.nursery_bytes;
  if sum != stats.bytes_allocated {
    problems.push(format!(
      "bytes_allocated {} but the sizes of all owned blocks sum to {}",
      stats.bytes_allocated, sum
    ));
  }

  let mut handles = 0usize;
  let mut handle_bytes = 0usize;
  let mut mismatched = 0usize;
  let mut first_mismatch = None;
  allocator.verif_handles(&mut |loc, size, kind| {
    handles += 1;
    handle_bytes += size;
    match arena.live_block(loc as usize) {
      Some((block_size, _)) if block_size == size => (),
      other => {
        mismatched += 1;
        if first_mismatch.is_none() {
          first_mismatch = Some(format!(
            "handle {:#x} kind {} size {} but arena block is {:?}",
            loc as usize, kind, size, other
          ));
        }
      },
    }
  });
  if mismatched > 0 {
    problems.push(format!(
      "{} owned blocks are not live blocks of that size: {}",
      mismatched,
      first_mismatch.unwrap_or_default()
    ));
  }
  if handles != arena.live_blocks {
    problems.push(format!(
      "{} blocks owned but {} blocks live in the arena",
      handles, arena.live_blocks
    ));
  }
  if handle_bytes != arena.live_bytes {
    problems.push(format!(
      "owned blocks total {} bytes but live arena blocks total {} bytes",
      handle_bytes, arena.live_bytes
    ));
  }

  let value = json!({
    "gc_count": stats.gc_count as u64,
    "bytes_allocated": stats.bytes_allocated,
    "next_gc": if stats.next_gc == usize::MAX { Value::Null } else { json!(stats.next_gc) },
    "temp_roots": stats.temp_roots,
    "interned": stats.interned,
    "heap_count": stats.heap_count,
    "obj_count": stats.obj_count,
    "nursery_count": stats.nursery_count,
    "live_blocks": arena.live_blocks,
    "live_bytes": arena.live_bytes,
    "kinds": stats.kinds[..13].to_vec(),
  });
  (value, problems)
}

fn quiescent(allocator: &Allocator) {
  let acct = SCHEDULE.with(|schedule| schedule.borrow().acct);
  if !acct {
    return;
  }

  let (mut value, mut problems) = stats_json(allocator);
  let (last_full, native, index, after_collection) = SCHEDULE.with(|schedule| {
    let schedule = &mut *schedule.borrow_mut();
    let after_collection = schedule.fired_total != schedule.evaluated_at_fired;
    schedule.evaluated_at_fired = schedule.fired_total;
    (
      schedule.last_full && after_collection,
      schedule.native && after_collection,
      if after_collection { schedule.last_collection_index } else { verif::alloc_index() },
      after_collection,
    )
  });
  value["sampled"] = json!(!after_collection);

  if last_full {
    if let Err(message) = allocator.verif_intern_consistent() {
      problems.push(message);
    }
  }

  if native {
    let stats = allocator.verif_stats();
    if stats.next_gc != stats.bytes_allocated * 2 {
      problems.push(format!(
        "next_gc {} is not twice the live size {}",
        stats.next_gc, stats.bytes_allocated
      ));
    }
  }

  let stdout_len = simio::with_world(|world| world.stdout.len());
  value["at"] = json!(index);
  value["full"] = json!(last_full);
  value["stdout_len"] = json!(stdout_len);

  SCHEDULE.with(|schedule| {
    let schedule = &mut *schedule.borrow_mut();
    schedule.acct_checks += 1;
    for problem in problems {
      if schedule.acct_violations.len() < 20 {
        schedule.acct_violations.push(format!(
          "{} {}: {}",
          if after_collection { "after collection at allocation" } else { "at the entry of allocation" },
          index,
          problem
        ));
      }
    }
    if schedule.acct_samples.len() < 3000 {
      schedule.acct_samples.push(value);
    }
  });
}

// --- job execution ---------------------------------------------------------------------------

fn get_u64(value: &Value, key: &str, default: u64) -> u64 {
  value.get(key).and_then(|v| v.as_u64()).unwrap_or(default)
}

fn get_str<'a>(value: &'a Value, key: &str, default: &'a str) -> &'a str {
  value.get(key).and_then(|v| v.as_str()).unwrap_or(default)
}

fn fnv(hash: &mut u64, bytes: &[u8]) {
  for byte in bytes {
    *hash ^= *byte as u64;
    *hash = hash.wrapping_mul(0x0000_0100_0000_01B3);
  }
  *hash ^= 0xff;
  *hash = hash.wrapping_mul(0x0000_0100_0000_01B3);
}

fn install_schedule(job: &Value) {
  let gc = job.get("gc").cloned().unwrap_or(json!({"kind": "never"}));
  let mut schedule = Schedule {
    kind: get_str(&gc, "kind", "never").to_string(),
    mode: get_str(&gc, "mode", "full").to_string(),
    from: get_u64(&gc, "from", 0),
    until: get_u64(&gc, "until", u64::MAX),
    period: get_u64(&gc, "period", 1),
    p_num: get_u64(&gc, "p_num", 1),
    p_den: get_u64(&gc, "p_den", 8),
    q_num: get_u64(&gc, "q_num", 1),
    q_den: get_u64(&gc, "q_den", 2),
    rng: get_u64(&gc, "seed", 1) | 1,
    acct: job.get("acct").and_then(|v| v.as_bool()).unwrap_or(false),
    watch_from: get_u64(job, "watch_from", 600),
    ..Schedule::default()
  };

  if let Some(points) = gc.get("points").and_then(|v| v.as_array()) {
    for point in points {
      let index = point.get(0).and_then(|v| v.as_u64()).unwrap_or(0);
      let mode = point.get(1).and_then(|v| v.as_u64()).unwrap_or(2) as u8;
      schedule.points.push((index, mode));
    }
    schedule.points.sort();
  }
  if let Some(windows) = gc.get("windows").and_then(|v| v.as_array()) {
    for window in windows {
      let a = window.get(0).and_then(|v| v.as_u64()).unwrap_or(0);
      let b = window.get(1).and_then(|v| v.as_u64()).unwrap_or(0);
      schedule.windows.push((a, b));
    }
  }

  schedule.native = schedule.kind == "native";
  if schedule.native {
    if let Some(threshold) = gc.get("threshold").and_then(|v| v.as_u64()) {
      verif::set_initial_threshold(Some(threshold as usize));
    }
  }

  SCHEDULE.with(|current| *current.borrow_mut() = schedule);
  verif::set_gc_decider(Some(decide));
  verif::set_collected(Some(collected));
  verif::set_quiescent(Some(quiescent));
  verif::set_threshold_watch(Some(threshold_watch));
  verif::set_quiescent_every(get_u64(job, "acct_every", 0));
}

fn panic_value(payload: Box<dyn std::any::Any + Send>) -> Value {
  if let Some(budget) = payload.downcast_ref::<verif::StepBudgetExhausted>() {
    return json!({"kind": "step_budget", "msg": format!("instruction budget exhausted after {} instructions", budget.0)});
  }
  if payload.downcast_ref::<simio::OutputLimit>().is_some() {
    return json!({"kind": "output_limit", "msg": "output limit exceeded"});
  }
  if let Some(corrupt) = payload.downcast_ref::<verif::CorruptHeader>() {
    return json!({
      "kind": "corrupt_header",
      "msg": format!(
        "header byte {:#x} read at {}",
        corrupt.byte,
        ARENA.state().describe(corrupt.address)
      ),
    });
  }
  let location = PANIC_MESSAGE.with(|message| message.borrow_mut().take());
  let message = if let Some(message) = payload.downcast_ref::<&str>() {
    message.to_string()
  } else if let Some(message) = payload.downcast_ref::<String>() {
    message.clone()
  } else {
    "unknown panic payload".to_string()
  };
  json!({"kind": "panic", "msg": message, "at": location})
}

fn run_job(job: &Value) -> Value {
  // --- the world
  verif::reset();
  simio::with_world(|world| {
    *world = simio::World::default();
    if let Some(files) = job.get("files").and_then(|v| v.as_object()) {
      for (path, text) in files {
        world
          .files
          .insert(path.clone(), text.as_str().unwrap_or("").as_bytes().to_vec());
      }
    }
    if let Some(files) = job.get("files_hex").and_then(|v| v.as_object()) {
      for (path, hex) in files {
        let hex = hex.as_str().unwrap_or("");
        let bytes = (0..hex.len() / 2)
          .map(|i| u8::from_str_radix(&hex[2 * i..2 * i + 2], 16).unwrap_or(0))
          .collect();
        world.files.insert(path.clone(), bytes);
      }
    }
    if let Some(lines) = job.get("stdin").and_then(|v| v.as_array()) {
      world.stdin_lines = lines
        .iter()
        .map(|line| line.as_str().unwrap_or("").to_string())
        .collect();
    }
    if let Some(args) = job.get("args").and_then(|v| v.as_array()) {
      world.args = args
        .iter()
        .map(|arg| arg.as_str().unwrap_or("").to_string())
        .collect();
    }
    if let Some(faults) = job.get("fs_faults").and_then(|v| v.as_array()) {
      for fault in faults {
        world.fs_faults.push(simio::FsFault {
          path: fault.get("path").and_then(|v| v.as_str()).map(|s| s.to_string()),
          op: get_str(fault, "op", "read").to_string(),
          nth: fault.get("nth").and_then(|v| v.as_u64()),
          kind: get_str(fault, "kind", "not_found").to_string(),
        });
      }
    }
  });

  // --- the heap
  let arena_job = job.get("arena").cloned().unwrap_or(json!({}));
  let policy = match get_str(&arena_job, "policy", "quarantine") {
    "eager" => Policy::EagerReuse,
    "seeded" => Policy::SeededReuse,
    _ => Policy::Quarantine,
  };
  {
    let arena = ARENA.state();
    arena.reset(
      policy,
      get_u64(&arena_job, "seed", 1),
      1 + get_u64(&arena_job, "shift", 0) as usize,
      get_u64(&arena_job, "dummy_every", 0) as u32,
    );
    arena.active = true;
  }

  // --- schedule, cache switch, budget
  install_schedule(job);
  verif::set_force_cache_miss(job.get("force_miss").and_then(|v| v.as_bool()).unwrap_or(false));
  verif::set_tick_budget(get_u64(job, "steps", 5_000_000));

  let mode = get_str(job, "mode", "run").to_string();
  let main = get_str(job, "main", "/sim/main.lay").to_string();
  let final_gc = job.get("final_gc").and_then(|v| v.as_bool()).unwrap_or(false);
  let drop_vm = job.get("drop_vm").and_then(|v| v.as_bool()).unwrap_or(true);

  let mut final_stats = Value::Null;
  let mut leak = Value::Null;
  let quiet = job.get("quiet").and_then(|v| v.as_bool()).unwrap_or(false);
  simio::QUIET.store(quiet, std::sync::atomic::Ordering::Relaxed);
  // bytes held from the system allocator before the VM exists and after it is gone: whatever a managed object or the
  // VM obtained outside the managed heap has to be given back by then
  let system_before = arena::system_live_bytes();
  let mut system_after = system_before;

  let outcome = catch_unwind(AssertUnwindSafe(|| {
    let mut vm = ManuallyDrop::new(Vm::new(simio::sim_io()));

    let result = if mode == "repl" {
      vm.repl()
    } else {
      let source = simio::with_world(|world| world.files.get(&main).cloned());
      match source {
        Some(bytes) => match String::from_utf8(bytes) {
          Ok(source) => vm.run(PathBuf::from(&main), &source),
          Err(_) => (4, VmExit::RuntimeError),
        },
        None => (4, VmExit::RuntimeError),
      }
    };

    if final_gc {
      // end of run: collect twice, the books must be exact and the second collection idle
      SCHEDULE.with(|schedule| schedule.borrow_mut().native = false);
      vm.verif_collect(true);
      let frees = ARENA.state().total_frees;
      let (first, mut problems) = stats_json(&vm.verif_allocator());
      if let Err(message) = vm.verif_allocator().verif_intern_consistent() {
        problems.push(message);
      }
      vm.verif_collect(true);
      let (second, _) = stats_json(&vm.verif_allocator());
      if ARENA.state().total_frees != frees {
        problems.push(format!(
          "second full collection at the end of the run freed {} blocks",
          ARENA.state().total_frees - frees
        ));
      }
      for key in ["bytes_allocated", "interned", "live_blocks", "live_bytes", "kinds"] {
        if first[key] != second[key] {
          problems.push(format!(
            "second full collection changed {}: {} -> {}",
            key, first[key], second[key]
          ));
        }
      }
      SCHEDULE.with(|schedule| {
        let schedule = &mut *schedule.borrow_mut();
        schedule.acct_checks += 1;
        for problem in problems {
          schedule.acct_violations.push(format!("at end of run: {}", problem));
        }
      });
      final_stats = first;
    }

    if drop_vm {
      unsafe { ManuallyDrop::drop(&mut vm) };
      let arena = ARENA.state();
      leak = json!({"blocks": arena.live_blocks, "bytes": arena.live_bytes});
      system_after = arena::system_live_bytes();
    }

    result
  }));

  simio::QUIET.store(false, std::sync::atomic::Ordering::Relaxed);
  ARENA.state().active = false;
  verif::set_gc_decider(None);
  verif::set_collected(None);
  verif::set_quiescent(None);
  verif::set_threshold_watch(None);
  verif::set_quiescent_every(0);
  verif::set_tick_budget(u64::MAX);

  let steps = verif::ticks();
  let allocs = verif::alloc_index();

  let (exit, vmexit, panic) = match outcome {
    Ok((code, exit)) => (
      json!(code),
      json!(match exit {
        VmExit::Ok => "ok",
        VmExit::RuntimeError => "runtime",
        VmExit::CompileError => "compile",
      }),
      Value::Null,
    ),
    Err(payload) => (Value::Null, json!("panic"), panic_value(payload)),
  };

  let mut probes = Map::new();
  for (id, name) in verif::probes::NAMES.iter().enumerate() {
    let count = verif::probe_count(id);
    if count > 0 {
      probes.insert(name.to_string(), json!(count));
    }
  }

  let arena = ARENA.state();
  let arena_errors: Vec<Value> = arena
    .errors
    .iter()
    .flatten()
    .map(|error| {
      json!({
        "kind": error.kind,
        "address": format!("{:#x}", error.address),
        "seq": error.seq,
        "expected": [error.expected_size, error.expected_align],
        "got": [error.got_size, error.got_align],
      })
    })
    .collect();

  let (stdout, stderr, marks, fs_fired, fs_log, read_lines) = simio::with_world(|world| {
    (
      String::from_utf8_lossy(&world.stdout).into_owned(),
      String::from_utf8_lossy(&world.stderr).into_owned(),
      world.marks.clone(),
      world.fs_fired.clone(),
      world.fs_log.clone(),
      world.read_line_calls,
    )
  });

  let (fired, fired_total, acct) = SCHEDULE.with(|schedule| {
    let schedule = &mut *schedule.borrow_mut();
    (
      std::mem::take(&mut schedule.fired),
      schedule.fired_total,
      json!({
        "checks": schedule.acct_checks,
        "violations": std::mem::take(&mut schedule.acct_violations),
        "samples": std::mem::take(&mut schedule.acct_samples),
      }),
    )
  });

  let mut digest: u64 = 0xcbf2_9ce4_8422_2325;
  fnv(&mut digest, stdout.as_bytes());
  fnv(&mut digest, stderr.as_bytes());
  fnv(&mut digest, exit.to_string().as_bytes());
  fnv(&mut digest, vmexit.to_string().as_bytes());
  fnv(&mut digest, &steps.to_le_bytes());
  fnv(&mut digest, &allocs.to_le_bytes());
  for (index, mode) in &fired {
    fnv(&mut digest, &index.to_le_bytes());
    fnv(&mut digest, &[*mode]);
  }
  fnv(&mut digest, &arena.total_allocs.to_le_bytes());
  fnv(&mut digest, &arena.total_frees.to_le_bytes());
  fnv(&mut digest, &(arena.used_bytes() as u64).to_le_bytes());

  json!({
    "id": job.get("id").cloned().unwrap_or(Value::Null),
    "exit": exit,
    "vmexit": vmexit,
    "panic": panic,
    "stdout": stdout,
    "stderr": stderr,
    "steps": steps,
    "allocs": allocs,
    "fired": fired.iter().map(|(index, mode)| json!([index, mode])).collect::<Vec<_>>(),
    "fired_total": fired_total,
    "probes": probes,
    "arena": {
      "allocs": arena.total_allocs,
      "frees": arena.total_frees,
      "reused": arena.reused,
      "used": arena.used_bytes(),
      "exhausted": arena.exhausted,
      "errors": arena_errors,
      "error_count": arena.error_count,
      "leak": leak,
      "system_bytes_not_returned": (system_after - system_before) as i64,
    },
    "acct": acct,
    "final": final_stats,
    "marks": marks.iter().map(|(offset, alloc, steps)| json!([offset, alloc, steps])).collect::<Vec<_>>(),
    "fs_fired": fs_fired,
    "fs_log": fs_log,
    "read_lines": read_lines,
    "digest": format!("{:016x}", digest),
  })
}

fn worker_loop() {
  std::panic::set_hook(Box::new(|info| {
    let location = info
      .location()
      .map(|location| format!("{}:{}", location.file(), location.line()));
    PANIC_MESSAGE.with(|message| *message.borrow_mut() = location);
  }));

  if !ARENA.state().map() {
    println!("{}", json!({"harness_error": "could not map the arena at its fixed address"}));
    std::process::exit(2);
  }

  let stdin = std::io::stdin();
  let stdout = std::io::stdout();
  for line in stdin.lock().lines() {
    let line = match line {
      Ok(line) => line,
      Err(_) => break,
    };
    if line.trim().is_empty() {
      continue;
    }
    let response = match serde_json::from_str::<Value>(&line) {
      Ok(job) => run_job(&job),
      Err(error) => json!({"harness_error": format!("bad job: {error}")}),
    };
    let mut out = stdout.lock();
    serde_json::to_writer(&mut out, &response).expect("write response");
    out.write_all(b"\n").expect("write response");
    out.flush().expect("flush response");
  }
}

fn main() {
  // a worker whose driver has gone away must not keep spinning inside a job that never ends
  let parent = unsafe { libc::getppid() };
  std::thread::spawn(move || loop {
    std::thread::sleep(std::time::Duration::from_secs(2));
    if unsafe { libc::getppid() } != parent {
      std::process::exit(3);
    }
  });

  // the interpreter, the collector's mark phase and the compiler all recurse on the native stack
  let handle = std::thread::Builder::new()
    .stack_size(1 << 30)
    .spawn(worker_loop)
    .expect("spawn worker thread");
  let _ = handle.join();
}
