import random, subprocess, sys, collections
sys.setrecursionlimit(100000)
# ---------- generator ----------
def gen(seed):
    r = random.Random(seed)
    nch = r.randint(1, 3); caps = [r.choice([0, 0, 1, 2, 3]) for _ in range(nch)]
    nf = r.randint(1, 4)
    scripts = []  # per fiber list of ops
    senders_of = collections.defaultdict(list)
    for f in range(nf):
        ops = []
        for _ in range(r.randint(1, 5)):
            k = r.choice(['send', 'send', 'recv', 'recv'])
            ch = r.randrange(nch)
            if k == 'send': ops.append(('send', ch, (f + 1) * 100 + len(ops))); senders_of[ch].append(f)
            else: ops.append(('recv', ch))
        scripts.append(ops)
    # optional close: a channel with exactly one sending fiber may be closed by it after its last send
    for ch in range(nch):
        ss = set(senders_of[ch])
        if len(ss) == 1 and r.random() < 0.5:
            f = ss.pop(); last = max(i for i, o in enumerate(scripts[f]) if o[0] == 'send' and o[1] == ch)
            scripts[f].insert(last + 1, ('close', ch))
            # a reader may drain
            g = r.randrange(nf)
            if g != f and r.random() < 0.7: scripts[g].append(('drain', ch))
    # main: optional own ops, then join all via done (buffered nf) -- or balanced random
    main = []
    for _ in range(r.randint(0, 3)):
        k = r.choice(['send', 'recv']); ch = r.randrange(nch)
        if any(('close', ch) in s for s in scripts) and k == 'send': continue
        main.append(('send', ch, 900 + len(main)) if k == 'send' else ('recv', ch))
    join = r.random() < 0.85
    return caps, scripts, main, join
def render(caps, scripts, main, join):
    L = [f"let c{i} = chan({c});" if c else f"let c{i} = chan();" for i, c in enumerate(caps)]
    nf = len(scripts); L.append(f"let done = chan({nf});")
    def rops(ops, fid):
        out = []
        for o in ops:
            if o[0] == 'send': out.append(f"c{o[1]} <- {o[2]}; print('S', {fid}, {o[1]}, {o[2]}, c{o[1]}.len());")
            elif o[0] == 'recv': out.append(f"print('R', {fid}, {o[1]}, <- c{o[1]}, c{o[1]}.len());")
            elif o[0] == 'close': out.append(f"c{o[1]}.close(); print('X', {fid}, {o[1]});")
            elif o[0] == 'drain': out.append(f"if true {{ let v = <- c{o[1]}; while v != nil {{ print('R', {fid}, {o[1]}, v, c{o[1]}.len()); v = <- c{o[1]}; }} print('N', {fid}, {o[1]}); }}")
        return out
    import random as _r
    rr = _r.Random(len(str(scripts)) * 7919 + nf)
    params = ', '.join('c%d' % i for i in range(len(caps)))
    launches = []
    for f, ops in enumerate(scripts):
        variant = rr.choice(['fn', 'lambda', 'method', 'capture'])
        body = ["  " + x for x in rops(ops, f + 1)] + [f"  print('D', {f + 1}); done <- {f + 1};"]
        if variant == 'fn':
            L.append(f"fn fib{f}({params}, done) {{"); L += body; L.append("}"); launches.append(f"launch fib{f}({params}, done);")
        elif variant == 'lambda':
            L.append(f"let fib{f} = |{params}, done| {{"); L += body; L.append("};"); launches.append(f"launch fib{f}({params}, done);")
        elif variant == 'method':
            L.append(f"class W{f} {{ init(tag) {{ self.tag = tag; }} run({params}, done) {{"); L += body; L.append("} }"); launches.append(f"launch W{f}({f}).run({params}, done);")
        else:  # closure capturing module-level channels through an enclosing function scope
            L.append(f"fn mk{f}({params}, done) {{ || {{"); L += body; L.append("} }"); launches.append(f"launch mk{f}({params}, done)();")
    L += launches
    L += rops(main, 0)
    if join: L.append(f"for i in {nf}.times() {{ print('J', <- done); }}")
    L.append("print('END');")
    return "\n".join(L) + "\n"
# ---------- ideal model: exhaustive exploration ----------
def explore(caps, scripts, main, join, cap_states=200000):
    nf = len(scripts)
    progs = [list(main) + ([('recv', 'done')] * nf if join else [])] + [list(s) + [('send', 'done', f + 1)] for f, s in enumerate(scripts)]
    chans = list(range(len(caps))) + ['done']
    capof = {i: (c if c else 1) for i, c in enumerate(caps)}; capof['done'] = nf
    sync = {i: (c == 0) for i, c in enumerate(caps)}; sync['done'] = False
    # state: pcs tuple, phase tuple (0 normal,1 awaiting-taken for sync send, 2 draining), queues tuple of tuples, closed tuple, pending sync sender value id
    init = (tuple(0 for _ in progs), tuple(0 for _ in progs), tuple(() for _ in chans), tuple(False for _ in chans))
    ci = {c: i for i, c in enumerate(chans)}
    seen = set(); outcomes = set(); stack = [init]; n = 0
    while stack:
        st = stack.pop()
        if st in seen: continue
        seen.add(st); n += 1
        if n > cap_states: return None
        pcs, ph, qs, closed = st
        if pcs[0] >= len(progs[0]) and ph[0] == 0: outcomes.add('complete'); continue
        succ = []
        for f, prog in enumerate(progs):
            pc = pcs[f]
            if pc >= len(prog) and ph[f] == 0: continue
            def upd(npc=None, nph=None, nq=None, ncl=None):
                p2 = list(pcs); h2 = list(ph); q2 = list(qs); c2 = list(closed)
                if npc is not None: p2[f] = npc
                if nph is not None: h2[f] = nph
                if nq is not None: q2[nq[0]] = nq[1]
                if ncl is not None: c2[ncl] = True
                return (tuple(p2), tuple(h2), tuple(q2), tuple(c2))
            if ph[f] == 1:  # sync sender awaiting take: enabled when its value no longer at queue head... value taken => queue empty of its value
                op = prog[pc]; k = ci[op[1]]
                if op[2] not in qs[k]: succ.append(upd(npc=pc + 1, nph=0))
                continue
            op = prog[pc]
            if op[0] == 'send':
                k = ci[op[1]]
                if closed[k]: outcomes.add('error'); continue
                if len(qs[k]) < capof[op[1]]:
                    if sync[op[1]]: succ.append(upd(nph=1, nq=(k, qs[k] + (op[2],))))
                    else: succ.append(upd(npc=pc + 1, nq=(k, qs[k] + (op[2],))))
            elif op[0] == 'recv':
                k = ci[op[1]]
                if qs[k]: succ.append(upd(npc=pc + 1, nq=(k, qs[k][1:])))
                elif closed[k]: succ.append(upd(npc=pc + 1))
            elif op[0] == 'drain':
                k = ci[op[1]]
                if qs[k]: succ.append(upd(nq=(k, qs[k][1:])))
                elif closed[k]: succ.append(upd(npc=pc + 1))
            elif op[0] == 'close':
                k = ci[op[1]]
                if closed[k]: outcomes.add('error'); continue
                succ.append(upd(npc=pc + 1, ncl=k))
        if not succ: outcomes.add('deadlock')
        else: stack.extend(succ)
    return outcomes
# ---------- history checks ----------
def check_history(out, caps, scripts, main):
    sent = {}; 
    for f, s in enumerate([main] + scripts):
        for o in s:
            if o[0] == 'send': sent[o[2]] = (f, o[1])
    recvd = []; per_sender_ch = collections.defaultdict(list); post = {}
    for idx, l in enumerate(out.splitlines()):
        p = l.split()
        if p[0] == 'R':
            v = p[3]
            if v == 'nil': continue
            v = int(v); 
            if v not in sent: return f'invented value {v}'
            if sent[v][1] != int(p[2]): return f'value {v} on wrong channel'
            recvd.append(v); per_sender_ch[(sent[v][0], sent[v][1])].append(v)
            ln = int(p[4]); c = caps[int(p[2])] or 1
            if ln > c: return f'len {ln} > cap {c}'
            if caps[int(p[2])] == 0 and v in post: return f'sync sender proceeded before value {v} taken'
        elif p[0] == 'S':
            post[int(p[3])] = idx; ln = int(p[4]); c = caps[int(p[2])] or 1
            if ln > c: return f'len {ln} > cap {c}'
    if len(set(recvd)) != len(recvd): return 'duplicate delivery'
    for k, vs in per_sender_ch.items():
        if vs != sorted(vs): return f'order broken for sender/channel {k}: {vs}'
    return None
binp = sys.argv[1]; n = int(sys.argv[2]); start = int(sys.argv[3]) if len(sys.argv) > 3 else 0
bad = collections.Counter(); ex = {}; cls = collections.Counter()
for seed in range(start, start + n):
    caps, scripts, main, join = gen(seed); src = render(caps, scripts, main, join)
    oc = explore(caps, scripts, main, join)
    if oc is None: cls['model-cap'] += 1; continue
    if 'error' in oc: cls['skip-error'] += 1; continue
    cls['/'.join(sorted(oc))] += 1
    open('n2.lay', 'w').write(src)
    try:
        p = subprocess.run([binp, 'n2.lay'], capture_output=True, text=True, timeout=20); so, se, rc = p.stdout, p.stderr, p.returncode
    except subprocess.TimeoutExpired: so, se, rc = '', 'TIMEOUT', -9
    if 'panicked' in se: got = 'panic'
    elif se == 'TIMEOUT': got = 'timeout'
    elif 'deadlock' in se: got = 'deadlock'
    elif rc == 0 and so.rstrip().endswith('END'): got = 'complete'
    else: got = f'other rc={rc}'
    key = None
    if got not in oc: key = f'outcome {got} not in {sorted(oc)}'
    else:
        h = check_history(so, caps, scripts, main)
        if h: key = 'history: ' + h.split(' ')[0] + ' ' + h.split(' ')[1]
    if key: bad[key] += 1; ex.setdefault(key, (seed, src, so, se[-300:]))
print(dict(bad), dict(cls))
for k, (seed, src, so, se) in list(ex.items())[:4]:
    print('=====', k, 'seed', seed); print(src); print('--out:'); print(so[-800:]); print('--err:', se)
