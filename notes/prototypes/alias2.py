import random, subprocess, sys, collections
class Obj:
    def __init__(s, oid, kind, items): s.id = oid; s.kind = kind; s.items = items; s.cap = max(len(items), 4) if kind == 'list' else None; s.grown = False
def gen(seed, in_fn):
    r = random.Random(seed)
    objs = []; vars_ = {}  # var name -> obj
    lines = []; exp = []; exempt = 0
    holder = []  # list of obj in module-level holder list `H`
    mkeys = []   # objs used as keys in map M
    lines.append("class Box { init(v) { self.v = v; } }")
    ind = "  " if in_fn else ""
    body = []
    body.append("let H = [];"); body.append("let M = {};"); body.append("let B = Box(nil);"); boxed = [None]
    def lit(o):
        return "[" + ", ".join(str(x) for x in o.items) + "]"
    def newobj():
        kind = r.choice(['list', 'list', 'list', 'map', 'inst'])
        oid = len(objs)
        if kind == 'list': o = Obj(oid, 'list', [r.randint(0, 9) for _ in range(r.choice([0, 1, 3, 4, 4, 5]))]); src = lit(o)
        elif kind == 'map': o = Obj(oid, 'map', {}); src = "{}"
        else: o = Obj(oid, 'inst', [r.randint(0, 9)]); src = f"Box({o.items[0]})"
        objs.append(o); name = f"a{len(vars_)}"; vars_[name] = o; body.append(f"let {name} = {src};")
    def pr(expr, val, objs_involved, stack_only=False):
        nonlocal exempt
        if any(o.grown for o in objs_involved) and not (in_fn and stack_only): 
            exempt += 1; return
        body.append(f"print({expr});"); exp.append(val)
    newobj()
    for step in range(r.randint(5, 25)):
        act = r.choice(['new', 'alias', 'hold', 'key', 'box', 'mut', 'mut', 'mut', 'eq', 'eq', 'hhas', 'mhas', 'len', 'boxeq'])
        names = list(vars_)
        a = r.choice(names); o = vars_[a]
        if act == 'new': newobj()
        elif act == 'alias':
            name = f"a{len(vars_)}"; vars_[name] = o; body.append(f"let {name} = {a};")
        elif act == 'hold':
            body.append(f"H.push({a});"); holder.append(o)
        elif act == 'key':
            if o not in mkeys: body.append(f"M[{a}] = {o.id};"); mkeys.append(o)
        elif act == 'box':
            body.append(f"B.v = {a};"); boxed[0] = o
        elif act == 'mut' and o.kind == 'list':
            m = r.choice(['push', 'push', 'push', 'pop', 'insert', 'remove', 'set', 'clear'])
            x = r.randint(10, 99)
            if m == 'push': body.append(f"{a}.push({x});"); o.items.append(x)
            elif m == 'insert': body.append(f"{a}.insert(0, {x});"); o.items.insert(0, x)
            elif m == 'pop' and o.items: body.append(f"{a}.pop();"); o.items.pop()
            elif m == 'remove' and o.items: body.append(f"{a}.remove(0);"); o.items.pop(0)
            elif m == 'set' and o.items: body.append(f"{a}[0] = {x};"); o.items[0] = x
            elif m == 'clear': body.append(f"{a}.clear();"); o.items.clear()
            if len(o.items) > o.cap:
                o.grown = True
                while o.cap < len(o.items): o.cap *= 2
        elif act == 'mut' and o.kind == 'map':
            x = r.randint(0, 5); body.append(f"{a}[{x}] = {x};"); o.items[x] = x
        elif act == 'mut' and o.kind == 'inst':
            x = r.randint(10, 99); body.append(f"{a}.v = {x};"); o.items[0] = x
        elif act == 'eq':
            b = r.choice(names); pr(f"{a} == {b}", 'true' if vars_[b] is o else 'false', [o, vars_[b]], stack_only=True)
        elif act == 'hhas' and holder:
            pr(f"H.has({a})", 'true' if o in holder else 'false', [o] + holder)
            if o in holder: pr(f"H.index({a})", str(holder.index(o)), [o] + holder)
        elif act == 'mhas':
            pr(f"M.has({a})", 'true' if o in mkeys else 'false', [o] + mkeys)
            if o in mkeys: pr(f"M[{a}]", str(o.id), [o] + mkeys)
        elif act == 'boxeq' and boxed[0] is not None:
            pr(f"B.v == {a}", 'true' if boxed[0] is o else 'false', [o, boxed[0]])
        elif act == 'len':
            # content visibility through any alias: always checked, even when grown
            if o.kind == 'list':
                body.append(f"print({a}.len(), {a});"); exp.append(f"{len(o.items)} [{', '.join(str(x) for x in o.items)}]")
            elif o.kind == 'inst':
                body.append(f"print({a}.v);"); exp.append(str(o.items[0]))
            else:
                body.append(f"print({a}.len());"); exp.append(str(len(o.items)))
    # final: contents through holder and box aliases
    for i, o in enumerate(holder):
        if o.kind == 'list': body.append(f"print(H[{i}].len());"); exp.append(str(len(o.items)))
    if in_fn: src = lines + ["fn run() {"] + ["  " + b for b in body] + ["}", "run();"]
    else: src = lines + body
    return "\n".join(src) + "\n", exp, exempt
binp = sys.argv[1]; n = int(sys.argv[2]); start = int(sys.argv[3]) if len(sys.argv) > 3 else 0
bad = collections.Counter(); ex = {}; tot_ex = 0; tot_obs = 0
for seed in range(start, start + n):
    for in_fn in (False, True):
        src, exp, exempt = gen(seed, in_fn); tot_ex += exempt; tot_obs += len(exp)
        open('a.lay', 'w').write(src)
        try:
            p = subprocess.run([binp, 'a.lay'], capture_output=True, text=True, timeout=20); so, se, rc = p.stdout, p.stderr, p.returncode
        except subprocess.TimeoutExpired: so, se, rc = '', 'TIMEOUT', -9
        got = so.splitlines(); key = None
        if rc != 0: key = f'rc={rc} ' + ('panic' if 'panicked' in se else se.strip().splitlines()[-1][:60] if se.strip() else '')
        elif got != exp: key = 'mismatch'
        if key: 
            key = ('fn ' if in_fn else 'mod ') + key
            bad[key] += 1; ex.setdefault(key, (seed, src, exp, got, se[-300:]))
print(dict(bad), 'observations', tot_obs, 'exempted', tot_ex)
for k, (seed, src, exp, got, se) in list(ex.items())[:4]:
    print('=====', k, 'seed', seed); print(src)
    for i, (e, g) in enumerate(zip(exp, got)):
        if e != g: print('first diff at', i, 'exp', e, 'got', g); break
    print('lens', len(exp), len(got)); print(se)
