import random, subprocess, sys, collections
ALPH = ['a', 'b', 'c', 'x', 'y', 'é', 'λ', '1', '_']
def gen(seed):
    r = random.Random(seed)
    L = []; exp = []; slots = {}   # name -> content (python str) or None if dropped
    L.append("let M = {};"); mkeys = {}
    L.append("fn churn(k) { let n = 0; for i in k.times() { let s = 'c${i}' + 'z'; n += s.len(); } n }")
    def rnd_text(): return "".join(r.choice(ALPH) for _ in range(r.randint(0, 6)))
    def lit(t): return "'" + t + "'"
    cnt = 0
    def new_slot(expr, content):
        nonlocal cnt
        name = f"s{cnt}"; cnt += 1; L.append(f"let {name} = {expr};"); slots[name] = content; return name
    live = lambda: [k for k, v in slots.items() if v is not None]
    new_slot(lit(rnd_text()), None); slots['s0'] = L[-1].split("'")[1]
    for step in range(r.randint(8, 40)):
        act = r.choice(['lit', 'concat', 'interp', 'slice', 'index', 'split', 'chars', 'num', 'same', 'drop', 'eq', 'eq', 'eq', 'mset', 'mget', 'mget', 'churn', 'lhas'])
        lv = live()
        if act == 'lit': new_slot(lit(rnd_text()), None); slots[f"s{cnt-1}"] = L[-1].split("'")[1]
        elif act == 'same' and lv:   # re-create the content of a live or dropped slot by another route
            src = r.choice(list(slots)); 
            t = slots[src] if slots[src] is not None else None
            if t is None: continue
            k = r.randint(0, len(t)); new_slot(f"{lit(t[:k])} + {lit(t[k:])}", t)
        elif act == 'concat' and len(lv) >= 2:
            a, b = r.choice(lv), r.choice(lv); new_slot(f"{a} + {b}", slots[a] + slots[b])
        elif act == 'interp' and lv:
            a = r.choice(lv); x = r.randint(0, 99); new_slot("'" + "p${" + a + "}q${" + str(x) + "}" + "'", f"p{slots[a]}q{x}")
        elif act == 'slice' and lv:
            a = r.choice(lv); t = slots[a]; i = r.randint(0, len(t)); j = r.randint(i, len(t)); new_slot(f"{a}.slice({i}, {j})", t[i:j])
        elif act == 'index' and lv:
            a = r.choice([k for k in lv if slots[k]] or [None])
            if a is None: continue
            i = r.randrange(len(slots[a])); new_slot(f"{a}[{i}]", slots[a][i])
        elif act == 'split' and lv:
            a = r.choice(lv); t = slots[a]
            if '_' not in t or t.startswith('_') or t.endswith('_') or '__' in t: continue
            parts = t.split('_'); k = r.randrange(len(parts)); new_slot(f"{a}.split('_').list()[{k}]", parts[k])
        elif act == 'chars' and lv:
            a = r.choice([k for k in lv if slots[k]] or [None])
            if a is None: continue
            i = r.randrange(len(slots[a])); new_slot(f"{a}.iter().list()[{i}]", slots[a][i])
        elif act == 'num':
            x = r.randint(0, 999); new_slot(f"{x}.str()", str(x))
        elif act == 'drop' and len(lv) > 1:
            a = r.choice(lv); L.append(f"{a} = nil;"); slots[a] = None
        elif act == 'eq' and lv:
            a, b = r.choice(lv), r.choice(lv)
            L.append(f"print({a} == {b}, {a} != {b}, {a} <= {b} && {b} <= {a});")
            e = slots[a] == slots[b]; exp.append(f"{str(e).lower()} {str(not e).lower()} {str(e).lower()}")
        elif act == 'mset' and lv:
            a = r.choice(lv); v = r.randint(0, 999); L.append(f"M[{a}] = {v};"); mkeys[slots[a]] = v
        elif act == 'mget' and lv:
            a = r.choice(lv); t = slots[a]
            L.append(f"print(M.has({a}), M.get({a}));"); exp.append(f"{'true' if t in mkeys else 'false'} {mkeys.get(t, 'nil')}")
        elif act == 'lhas' and len(lv) >= 2:
            a, b, c = r.choice(lv), r.choice(lv), r.choice(lv)
            L.append(f"print([{a}, {b}].has({c}));"); exp.append('true' if slots[c] in (slots[a], slots[b]) else 'false')
        elif act == 'churn': L.append(f"churn({r.choice([3, 30, 300])});")
    return "\n".join(L) + "\n", exp
binp = sys.argv[1]; n = int(sys.argv[2]); start = int(sys.argv[3]) if len(sys.argv) > 3 else 0
bad = collections.Counter(); ex = {}; obs = 0
for seed in range(start, start + n):
    src, exp = gen(seed); open('s.lay', 'w').write(src); obs += len(exp)
    try:
        p = subprocess.run([binp, 's.lay'], capture_output=True, text=True, timeout=60); so, se, rc = p.stdout, p.stderr, p.returncode
    except subprocess.TimeoutExpired: so, se, rc = '', 'TIMEOUT', -9
    got = so.splitlines(); key = None
    if rc != 0: key = f'rc={rc} ' + ('panic' if 'panicked' in se else (se.strip().splitlines()[-1][:70] if se.strip() else ''))
    elif got != exp: key = 'mismatch'
    if key: bad[key] += 1; ex.setdefault(key, (seed, src, exp, got, se[-400:]))
print(dict(bad), 'observations', obs)
for k, (seed, src, exp, got, se) in list(ex.items())[:3]:
    print('=====', k, 'seed', seed); print(src[:2500])
    for i, (e, g) in enumerate(zip(exp, got)):
        if e != g: print('first diff at', i, 'exp', e, 'got', g); break
    print('lens', len(exp), len(got)); print(se)
