import random, subprocess, sys, collections
def gen(seed):
    r = random.Random(seed)
    L = []; exp = []
    nstat = r.randint(1, 3); ndyn = r.randint(1, 3)
    # static classes with differing field orders; some with subclass + super
    stat = []
    for i in range(nstat):
        order = r.sample(['p', 'q', 'r'], 3)
        init = " ".join(f"self.{f} = base + {j};" for j, f in enumerate(order))
        L.append(f"class S{i} {{ init(base) {{ {init} }} m() {{ 'S{i}.m' }} n(x) {{ x + self.p }} }}")
        stat.append((f"S{i}", order, False))
        if r.random() < 0.5:
            L.append(f"class T{i} : S{i} {{ m() {{ 'T{i}.m>' + super.m() }} }}")
            stat.append((f"T{i}", order, True))
    # dynamic class makers: new class object per call
    for i in range(ndyn):
        order = r.sample(['p', 'q', 'r'], 3)
        init = " ".join(f"self.{f} = base + {j};" for j, f in enumerate(order))
        L.append(f"fn mk{i}(base) {{ class D{i} {{ init(base) {{ {init} }} m() {{ 'D{i}.m' }} n(x) {{ x + self.p }} }} D{i}(base) }}")
    # shadow: instance whose field m holds a callable
    L.append("class Sh { init() { self.p = 7; self.m = || 'shadow'; } n(x) { x + self.p } }")
    # shared sites
    L.append("fn callm(o) { o.m() }")
    L.append("fn getp(o) { o.p }")
    L.append("fn setq(o, v) { o.q = v; o.q }")
    L.append("fn calln(o, x) { o.n(x) }")
    L.append("fn garbage(k) { let acc = []; for i in k.times() { acc.push('g${i}' + 'x'); } acc.len() }")
    def recv():
        k = r.choice(['s', 's', 'd', 'd', 'sh'])
        base = r.randint(1, 50) * 10
        if k == 's':
            name, order, sub = r.choice(stat)
            tag = (f"{name}.m>" + name.replace('T', 'S') + ".m") if sub else f"{name}.m"
            return f"{name}({base})", tag, base + order.index('p')
        if k == 'd':
            i = r.randrange(ndyn); 
            return f"mk{i}({base})", f"D{i}.m", None
        return "Sh()", "shadow", 7
    # need p index for dynamic: parse order again -> store orders
    dyn_orders = []
    for l in L:
        if l.startswith("fn mk"):
            seg = l.split("init(base) { ")[1].split(" }")[0]
            fs = [s.split('=')[0].strip().replace('self.', '') for s in seg.split(';') if s.strip()]
            dyn_orders.append(fs)
    for step in range(r.randint(10, 40)):
        e, tag, p = recv()
        if p is None:
            i = int(e[2]); base = int(e.split('(')[1].rstrip(')')); p = base + dyn_orders[i].index('p')
        site = r.choice(['m', 'p', 'q', 'n', 'mix'])
        if r.random() < 0.4: L.append(f"garbage({r.choice([5, 50, 400])});")
        if site == 'm': L.append(f"print(callm({e}));"); exp.append(tag)
        elif site == 'p': L.append(f"print(getp({e}));"); exp.append(str(p))
        elif site == 'q':
            if e == 'Sh()': continue
            v = r.randint(1000, 1999); L.append(f"print(setq({e}, {v}));"); exp.append(str(v))
        elif site == 'n': x = r.randint(1, 9); L.append(f"print(calln({e}, {x}));"); exp.append(str(x + p))
        else:
            L.append(f"if true {{ let o = {e}; print(callm(o), getp(o), calln(o, 1)); }}"); exp.append(f"{tag} {p} {1 + p}")
    return "\n".join(L) + "\n", exp
binp = sys.argv[1]; n = int(sys.argv[2]); start = int(sys.argv[3]) if len(sys.argv) > 3 else 0
bad = collections.Counter(); ex = {}
for seed in range(start, start + n):
    src, exp = gen(seed); open('c.lay', 'w').write(src)
    try:
        p = subprocess.run([binp, 'c.lay'], capture_output=True, text=True, timeout=60); so, se, rc = p.stdout, p.stderr, p.returncode
    except subprocess.TimeoutExpired: so, se, rc = '', 'TIMEOUT', -9
    got = so.splitlines(); key = None
    if rc != 0: key = f'rc={rc} ' + ('panic' if 'panicked' in se else (se.strip().splitlines()[-1][:70] if se.strip() else ''))
    elif got != exp: key = 'mismatch'
    if key: bad[key] += 1; ex.setdefault(key, (seed, src, exp, got, se[-300:]))
print(dict(bad))
for k, (seed, src, exp, got, se) in list(ex.items())[:3]:
    print('=====', k, 'seed', seed); print(src[:3000])
    for i, (e, g) in enumerate(zip(exp, got)):
        if e != g: print('first diff at', i, 'exp', e, 'got', g); break
    print('lens', len(exp), len(got)); print(se)
