import random, subprocess, sys, collections, re
def gen(seed):
    r = random.Random(seed)
    L = []
    def src():
        k = r.choice(['nums', 'strs', 'times', 'chars', 'nested'])
        if k == 'nums': return "[" + ", ".join(str(r.randint(0, 9)) for _ in range(r.randint(0, 6))) + "].iter()"
        if k == 'strs': return "[" + ", ".join("'w%d'" % r.randint(0, 9) for _ in range(r.randint(0, 6))) + "].iter()"
        if k == 'times': return f"{r.randint(0, 6)}.times()"
        if k == 'chars': return "'" + "".join(r.choice('abcxyz') for _ in range(r.randint(0, 6))) + "'.iter()"
        return "[" + ", ".join("[%d, 'n%d']" % (r.randint(0, 9), r.randint(0, 9)) for _ in range(r.randint(0, 5))) + "].iter()"
    def adaptor():
        k = r.choice(['map_s', 'map_l', 'filter', 'take', 'skip', 'zip', 'chain', 'map_c'])
        if k == 'map_s': return ".map(|x| 'm${x}' + '!')"
        if k == 'map_l': return ".map(|x| [x, 'l${x}'])"
        if k == 'map_c': return ".map(|x| { let y = [x]; || y })"  # closure capturing fresh list
        if k == 'filter': return ".filter(|x| { let t = 'f${x}'; t.len() > %d })" % r.randint(1, 4)
        if k == 'take': return f".take({r.randint(0, 4)})"
        if k == 'skip': return f".skip({r.randint(0, 3)})"
        if k == 'zip': return f".zip({src()})"
        return f".chain({src()})"
    def sink(p):
        k = r.choice(['list', 'each', 'all', 'any', 'first', 'last', 'len', 'sort', 'into', 'str'])
        if k == 'list': return f"print({p}.list());"
        if k == 'reduce_s': return f"print({p}.reduce('', |acc, x| acc + '${{x}}' + ','));"
        if k == 'reduce_l': return f"print({p}.reduce([], |acc, x| {{ let n = ['${{x}}']; for a in acc {{ n.push(a); }} n }}));"
        if k == 'each': return f"if true {{ let out = []; {p}.each(|x| {{ out.push('e${{x}}'); }}); print(out); }}"
        if k == 'all': return f"print({p}.all(|x| {{ let t = 'a${{x}}'; t.len() > 0 }}));"
        if k == 'any': return f"print({p}.any(|x| {{ let t = 'a${{x}}'; t.len() > 99 }}));"
        if k == 'first': return f"print({p}.first());"
        if k == 'last': return f"print({p}.last());"
        if k == 'len': return f"print({p}.len());"
        if k == 'sort': return f"print({p}.list().sort(|a, b| {{ let t = 'c${{a}}' + 'd${{b}}'; t.len() - 4 - t.len() + 4 }}).len());"
        if k == 'into': return f"print({p}.into(List.collect));"
        return f"print('${{{p}.list()}}');"
    for _ in range(r.randint(2, 8)):
        p = src()
        for _ in range(r.randint(0, 3)): p += adaptor()
        # closures print with addresses: avoid printing pipelines containing map_c directly
        s = sink(p)
        if 'map(|x| { let y = [x]; || y })' in p: s = f"print({p}.map(|f| f()).list());" if r.random() < 0.7 else f"print({p}.len());"
        L.append(s)
    return "\n".join(L) + "\n"
bplain, bstress = sys.argv[1], sys.argv[2]; n = int(sys.argv[3]); start = int(sys.argv[4]) if len(sys.argv) > 4 else 0
bad = collections.Counter(); ex = {}
def run(b, f):
    try:
        p = subprocess.run([b, f], capture_output=True, text=True, timeout=60); return re.sub(r'0x[0-9a-f]+', '0xADDR', p.stdout), p.stderr, p.returncode
    except subprocess.TimeoutExpired: return '', 'TIMEOUT', -9
for seed in range(start, start + n):
    src = gen(seed); open('pi.lay', 'w').write(src)
    a = run(bplain, 'pi.lay'); b = run(bstress, 'pi.lay')
    key = None
    if 'panicked' in a[1] or a[2] < 0: key = 'plain crash'
    elif a[2] != b[2]: key = f'rc {a[2]} vs {b[2]}' + (' (stress panic)' if 'panicked' in b[1] else '')
    elif a[0] != b[0]: key = 'stdout differs'
    if key: bad[key] += 1; ex.setdefault(key, (seed, src, a, b))
print(dict(bad))
for k, (seed, src, a, b) in list(ex.items())[:4]:
    print('=====', k, 'seed', seed); print(src)
    al, bl = a[0].splitlines(), b[0].splitlines()
    for i, (x, y) in enumerate(zip(al, bl)):
        if x != y: print('line', i, '\n plain :', x[:200], '\n stress:', y[:200]); break
    print('plain err:', a[1][-200:]); print('stress err:', b[1][-300:])
