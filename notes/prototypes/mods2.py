import random, subprocess, sys, collections, os, shutil
def gen(seed):
    r = random.Random(seed)
    k = r.randint(1, 5)
    mods = [f"m{i}" for i in range(k)]
    deps = {m: [d for d in mods[:i] if r.random() < 0.4] for i, m in enumerate(mods)}  # acyclic: only earlier
    files = {}; exports = {}
    for i, m in enumerate(mods):
        lines = []
        for d in deps[m]:
            form = r.choice(['sym', 'mod'])
            if form == 'sym': lines.append(f"import self.{d}:{{bump_{d} as b_{d}}};")
            else: lines.append(f"import self.{d};")
        lines.append(f"print('#run {m}');")
        lines.append(f"let hidden_{m} = 0;")
        lines.append(f"let priv_{m} = {i + 40};")
        lines.append(f"export fn bump_{m}() {{ hidden_{m} += 1; hidden_{m} }}")
        lines.append(f"export let val_{m} = {i + 10};")
        lines.append(f"export class K_{m} {{ id() {{ {i + 20} }} }}")
        for d in deps[m]:
            lines.append(f"print('{m} sees', {('b_' + d + '()') if f'bump_{d} as b_{d}' in ''.join(lines) else (d + '.bump_' + d + '()')});")
        files[m] = "\n".join(lines) + "\n"
    # main
    main = ["print('#main');", "let tick = chan(3);", "fn ticker(ch) { for i in 3.times() { ch <- i; } }", "launch ticker(tick);"]; exp = ["#main"]
    ran = []; counters = collections.Counter()
    def run_mod(m):
        if m in ran: return
        # imports first (statement order: imports are at top of module)
        for d in deps[m]: run_mod(d)
        ran.append(m); exp.append(f"#run {m}")
        for d in deps[m]:
            counters[d] += 1; exp.append(f"{m} sees {counters[d]}")
    nimp = r.randint(1, 6); fail = None
    for j in range(nimp):
        m = r.choice(mods); form = r.choice(['mod', 'as', 'sym', 'symas', 'missing', 'notexp', 'privprop'])
        if form == 'missing' and r.random() < 0.5: form = 'mod'
        if form == 'mod':
            alias = m; main.append(f"import self.{m};")
        elif form == 'as':
            alias = f"A{j}"; main.append(f"import self.{m} as {alias};")
        if form in ('mod', 'as'):
            # redefinition of same name twice is a compile error: avoid duplicates
            if any(l.startswith('import') and (l.endswith(f" {alias};") or l == f"import self.{alias};") for l in main[:-1]):
                main.pop(); continue
            run_mod(m); main.append(f"print({alias}.val_{m}, {alias}.bump_{m}(), {alias}.K_{m}().id());")
            counters[m] += 1; exp.append(f"{i_of(m) + 10} {counters[m]} {i_of(m) + 20}" if False else None)
            exp[-1] = f"{mods.index(m) + 10} {counters[m]} {mods.index(m) + 20}"
        elif form in ('sym', 'symas'):
            nm = f"s{j}"; main.append(f"import self.{m}:{{val_{m} as v{nm}, bump_{m} as b{nm}}};")
            run_mod(m); main.append(f"print(v{nm}, b{nm}());"); counters[m] += 1; exp.append(f"{mods.index(m) + 10} {counters[m]}")
        elif form == 'missing':
            main.append(f"import self.nope{j};"); fail = 'ImportError'; break
        elif form == 'notexp':
            main.append(f"import self.{m}:{{priv_{m} as p{j}}};"); run_mod(m); fail = 'ImportError'; break
        elif form == 'privprop':
            alias = f"P{j}"; main.append(f"import self.{m} as {alias};"); run_mod(m); main.append(f"print({alias}.priv_{m});"); fail = 'AnyError'; break
    main.append("print('#tick', <- tick, <- tick, <- tick);")
    main.append("print('#end');")
    if not fail: exp.append('#tick 0 1 2'); exp.append('#end')
    files['main'] = "\n".join(main) + "\n"
    return files, exp, fail
def i_of(m): return 0
binp = sys.argv[1]; n = int(sys.argv[2]); start = int(sys.argv[3]) if len(sys.argv) > 3 else 0
bad = collections.Counter(); ex = {}
for seed in range(start, start + n):
    files, exp, fail = gen(seed)
    shutil.rmtree('md', ignore_errors=True); os.makedirs('md')
    for k, v in files.items(): open(f'md/{k}.lay', 'w').write(v)
    try:
        p = subprocess.run([binp, 'md/main.lay'], capture_output=True, text=True, timeout=20); so, se, rc = p.stdout, p.stderr, p.returncode
    except subprocess.TimeoutExpired: so, se, rc = '', 'TIMEOUT', -9
    key = None
    got = so.splitlines()
    if got != exp: key = 'stdout mismatch'
    elif fail is None and rc != 0: key = f'rc={rc}'
    elif fail == 'ImportError' and (rc == 0 or 'ImportError' not in se): key = 'expected ImportError'
    elif fail == 'AnyError' and rc == 0: key = 'expected error'
    if 'panicked' in se: key = 'panic'
    if key: bad[key] += 1; ex.setdefault(key, (seed, files, exp, got, se[-500:], rc))
print(dict(bad))
for k, (seed, files, exp, got, se, rc) in ex.items():
    print('=====', k, 'seed', seed, 'rc', rc)
    for f, v in files.items(): print(f'--- {f}.lay'); print(v)
    print('--exp:', exp); print('--got:', got); print('--err:', se)
