import subprocess, sys, copy
src=open('frames3.py').read().split("binp = sys.argv[1]")[0]
m={}; exec(src, m)
binp='/tmp/lyb/fixed/debug/laythe'
funs, nfp = m['gen'](33, True, False); target = 7
def fails(funs, target):
    try: exp,_ = m['model'](funs, target)
    except Exception: return False
    open('red.lay','w').write(m['render'](funs, target))
    p = subprocess.run([binp,'red.lay'],capture_output=True,text=True,timeout=20)
    return p.returncode == 0 and p.stdout.splitlines() != exp
assert fails(funs, target)
def paths(stmts, prefix):
    out=[]
    for i,s in enumerate(stmts):
        out.append(prefix+[i])
        if s[0] in ('try',): out += paths(s[1], prefix+[i,1])
        if s[0] in ('loop','cb'): out += paths(s[2], prefix+[i,2])
    return out
def delete(funs, fi, path):
    f2 = copy.deepcopy(funs); 
    node = f2[fi][1]
    for k in path[:-1]: node = node[k]
    if isinstance(node, tuple): return None
    del node[path[-1]]
    return f2
def tolist(x):
    if isinstance(x, tuple): return [tolist(e) for e in x]
    if isinstance(x, list): return [tolist(e) for e in x]
    return x
# convert tuples to lists for mutability
funs = [(np_, tolist(body)) for np_, body in funs]
def totuple_stmt(s): return s
changed=True
while changed:
    changed=False
    for fi in range(len(funs)):
        for path in sorted(paths(funs[fi][1], []), key=lambda p: -len(p)):
            f2 = copy.deepcopy(funs)
            node = f2[fi][1]
            try:
                for k in path[:-1]: node = node[k]
                del node[path[-1]]
            except Exception: continue
            # fault target may shift: try all targets 1..12
            for t in range(1, 13):
                try:
                    if fails(f2, t): funs, target = f2, t; changed=True; break
                except Exception: pass
            if changed: break
        if changed: break
print(m['render'](funs, target))
