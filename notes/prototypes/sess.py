import random, subprocess, sys, collections, os
def gen(seed):
    r = random.Random(seed)
    lets, fns, classes, objs, gfn = [], [], [], [], []
    entries = []  # (text, ok)
    n = r.randint(4, 14)
    for i in range(n):
        kinds = ['let', 'fn', 'class', 'bad']
        if classes: kinds += ['obj', 'sub']
        if objs: kinds += ['gfn', 'callm', 'setp', 'callm']
        if fns: kinds += ['callf', 'callf']
        if gfn and objs: kinds += ['callg', 'callg', 'callg']
        k = r.choice(kinds)
        if k == 'let':
            name = f"v{i}"; entries.append((f"let {name} = {r.randint(1, 9)};", True)); lets.append(name)
        elif k == 'fn':
            name = f"f{i}"; dep = r.choice(lets) if lets else '1'
            entries.append((f"fn {name}(a) {{ a + {dep} }}", True)); fns.append(name)
        elif k == 'class':
            name = f"C{i}"
            entries.append((f"class {name} {{ init(x) {{ self.x = x; self.y = x * 2; }} get() {{ self.x }} add(z) {{ self.x + z + self.y }} }}", True)); classes.append(name)
        elif k == 'sub':
            name = f"D{i}"; sup = r.choice(classes)
            entries.append((f"class {name} : {sup} {{ get() {{ super.get() + 100 }} }}", True)); classes.append(name)
        elif k == 'obj':
            name = f"o{i}"; entries.append((f"let {name} = {r.choice(classes)}({r.randint(1, 9)});", True)); objs.append(name)
        elif k == 'gfn':
            name = f"g{i}"; entries.append((f"fn {name}(o) {{ o.get() + o.x + o.add(1) }}", True)); gfn.append(name)
        elif k == 'callm':
            o = r.choice(objs); entries.append((f"print('m', {o}.get(), {o}.x, {o}.add(2));", True))
        elif k == 'setp':
            o = r.choice(objs); entries.append((f"{o}.x = {r.randint(10, 19)};", True))
        elif k == 'callf':
            entries.append((f"print('f', {r.choice(fns)}({r.randint(1, 5)}));", True))
        elif k == 'callg':
            entries.append((f"print('g', {r.choice(gfn)}({r.choice(objs)}));", True))
        elif k == 'bad':
            b = r.choice(['undef', 'syntax', 'raise', 'callnil', 'redecl'])
            if b == 'undef': entries.append(("print(nope_name);", False))
            elif b == 'syntax': entries.append(("print(1 + );", False))
            elif b == 'raise': entries.append(('raise Error("e"); print("unreachable");', False))
            elif b == 'callnil': entries.append(('nil(); print("unreachable");', False))
            elif b == 'redecl' and lets: entries.append((f"let {r.choice(lets)} = 0;", False))
            else: entries.append(("print(1 + );", False))
    return entries
def run(binp, args, stdin=None):
    try:
        p = subprocess.run([binp] + args, input=stdin, capture_output=True, text=True, timeout=20)
        return p.stdout, p.stderr, p.returncode
    except subprocess.TimeoutExpired: return '', 'TIMEOUT', -9
binp = sys.argv[1]; n = int(sys.argv[2]); start = int(sys.argv[3]) if len(sys.argv) > 3 else 0
bad = collections.Counter(); ex = {}
for seed in range(start, start + n):
    es = gen(seed)
    sess = "".join(t + "\n" for t, ok in es)
    so, se, rc = run(binp, [], sess)
    so = so.replace("laythe:> ", "")
    open('f.lay', 'w').write("".join(t + "\n" for t, ok in es if ok))
    fo, fe, frc = run(binp, ['f.lay'])
    key = None
    if rc != 0: key = 'repl rc=%d %s' % (rc, 'panic' if 'panicked' in se else '')
    elif frc != 0: key = 'file rc=%d' % frc
    elif so != fo: key = 'stdout differs'
    if key: bad[key] += 1; ex.setdefault(key, (seed, sess, so, fo, se[-400:], fe[-300:]))
print(dict(bad))
for k, (seed, sess, so, fo, se, fe) in ex.items():
    print('=====', k, 'seed', seed); print(sess); print('--repl out:', so); print('--file out:', fo); print('--repl err tail:', se); print('--file err tail:', fe)
