import random, subprocess, sys, collections, re
def gen(seed):
    r = random.Random(seed)
    consts = ['0', '-0', '1', '-1', '0.5', '1e308', '1e-320', '5e-324', '9007199254740992', '9007199254740993', '0.1', '0.2', '3', '1/0', '-1/0', '0/0', '(0/0) * -1', '0 * -1', '1e308 * 10', '2.5', '-2.5']
    L = ["let vals = [];"]
    names = []
    for i in range(r.randint(3, 8)):
        a, b = r.choice(consts), r.choice(consts); op = r.choice(['+', '-', '*', '/'])
        L.append(f"let n{i} = ({a}) {op} ({b});"); names.append(f"n{i}")
    for _ in range(r.randint(5, 20)):
        a, b = r.choice(names), r.choice(names)
        k = r.choice(['eq', 'cmp', 'map', 'lhas', 'str', 'arith', 'parse', 'idx'])
        if k == 'eq': L.append(f"print({a} == {b}, {a} != {b});")
        elif k == 'cmp': L.append(f"print({a} < {b}, {a} <= {b}, {a} > {b}, {a} >= {b});")
        elif k == 'map': L.append(f"if true {{ let m = {{}}; m[{a}] = 1; print(m.has({b}), m.len()); m[{b}] = 2; print(m.len()); }}")
        elif k == 'lhas': L.append(f"print([{a}, 1].has({b}), [{a}].index({b}));")
        elif k == 'str': L.append(f"print({a}, '${{{a}}}', {a}.str());")
        elif k == 'arith': L.append(f"print({a} + {b}, {a} * {b}, -{a}, {a} / {b});")
        elif k == 'parse': L.append(f"print(Number.parse({a}.str()) == {a});")
        elif k == 'idx': L.append(f"print({a}.floor(), {a}.ceil(), {a}.round());")
    return "\n".join(L) + "\n"
b1, b2 = sys.argv[1], sys.argv[2]; n = int(sys.argv[3]); start = int(sys.argv[4]) if len(sys.argv) > 4 else 0
bad = collections.Counter(); ex = {}
def run(b, f):
    p = subprocess.run([b, f], capture_output=True, text=True, timeout=60); return p.stdout, (p.stderr.strip().splitlines() or [''])[-1][:80], p.returncode
for seed in range(start, start + n):
    src = gen(seed); open('nu.lay', 'w').write(src)
    a = run(b1, 'nu.lay'); b = run(b2, 'nu.lay')
    key = None
    if a[2] != b[2] or a[1] != b[1]: key = f'rc/err {a[2]} {a[1]} vs {b[2]} {b[1]}'
    elif a[0] != b[0]: key = 'stdout differs'
    if key: bad[key] += 1; ex.setdefault(key, (seed, src, a, b))
print(dict(bad))
for k, (seed, src, a, b) in list(ex.items())[:2]:
    print('=====', k, 'seed', seed); print(src)
    for i, (x, y) in enumerate(zip(a[0].splitlines(), b[0].splitlines())):
        if x != y: print('line', i, '\n A:', x, '\n B:', y); break
