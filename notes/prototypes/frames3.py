import random, subprocess, sys, collections
class Raise(Exception):
    def __init__(s, msg): s.msg = msg
class Ret(Exception):
    def __init__(s, v): s.v = v
class Brk(Exception): pass
class Cont(Exception): pass
def gen(seed, allow_params=True, allow_nested_exit=True):
    r = random.Random(seed)
    nf = r.randint(1, 4); funs = []
    cid = [0]
    def const():
        cid[0] += 1; return 1000 + cid[0]
    fpid = [0]
    def block(fi, depth, in_loop, in_try, names, nparams):
        stmts = []
        for _ in range(r.randint(1, 4)):
            k = r.choice(['let', 'fp', 'fp', 'call', 'try', 'loop', 'print', 'exit', 'cb'])
            if k == 'let':
                n = f"v{len(names)}_{fi}"; names.append(n); stmts.append(('let', n, const()))
            elif k == 'fp':
                fpid[0] += 1; stmts.append(('fp', fpid[0]))
            elif k == 'call' and fi + 1 < nf:
                g = r.randint(fi + 1, nf - 1); stmts.append(('call', g, [const() for _ in range(funs_params[g])]))
            elif k == 'try' and depth < 3:
                inner_names = list(names)
                body = block(fi, depth + 1, in_loop, in_try + 1, inner_names, nparams)
                stmts.append(('try', body, list(names)))
            elif k == 'loop' and depth < 3 and not in_loop:
                inner_names = list(names)
                body = block(fi, depth + 1, True, in_try, inner_names, nparams)
                stmts.append(('loop', r.randint(1, 3), body))
            elif k == 'print':
                stmts.append(('print', f"P{const()}", list(names)))
            elif k == 'cb' and depth < 3:
                inner = []
                for _ in range(r.randint(1, 3)):
                    kk = r.choice(['fp', 'print'])
                    if kk == 'fp': fpid[0] += 1; inner.append(('fp', fpid[0]))
                    elif kk == 'print': inner.append(('print', f"P{const()}", list(names)))
                    elif kk == 'call' and fi + 1 < nf:
                        g = r.randint(fi + 1, nf - 1); inner.append(('call', g, [const() for _ in range(funs_params[g])]))
                stmts.append(('cb', r.randint(1, 3), inner, r.choice(['each', 'map', 'filter'])))
            elif k == 'exit' and (in_try <= 1 or allow_nested_exit) and r.random() < 0.5:
                if in_loop and r.random() < 0.6: stmts.append((r.choice(['break', 'continue']),)); break
                elif in_try: stmts.append(('ret', const())); break
        return stmts
    funs_params = [(r.randint(0, 3) if allow_params else 0) for _ in range(nf)]
    for fi in range(nf):
        names = [f"p{j}_{fi}" for j in range(funs_params[fi])]
        nparams = len(names)
        body = block(fi, 0, False, 0, names, nparams)
        funs.append((nparams, body))
    return funs, fpid[0]
def render(funs, target):
    L = ["let CNT = 0;", f"let TARGET = {target};", "fn fp(id) { CNT += 1; if CNT == TARGET { raise Error('F${id}'); } }"]
    def rb(stmts, ind):
        out = []
        for s in stmts:
            if s[0] == 'let': out.append(f"{ind}let {s[1]} = {s[2]};")
            elif s[0] == 'fp': out.append(f"{ind}fp({s[1]});")
            elif s[0] == 'call': out.append(f"{ind}print('R', f{s[1]}({', '.join(map(str, s[2]))}));")
            elif s[0] == 'print': out.append(f"{ind}print('{s[1]}'{''.join(', ' + n for n in s[2])});")
            elif s[0] == 'ret': out.append(f"{ind}return {s[1]};")
            elif s[0] in ('break', 'continue'): out.append(f"{ind}{s[0]};")
            elif s[0] == 'loop':
                out.append(f"{ind}for i in {s[1]}.times() {{"); out += rb(s[2], ind + "  "); out.append(f"{ind}}}")
            elif s[0] == 'cb':
                lst = "[" + ", ".join(str(i) for i in range(s[1])) + "]"
                tail = {'each': '', 'map': ' true', 'filter': ' true'}[s[3]]
                fin = {'each': '', 'map': '.list()', 'filter': '.list()'}[s[3]]
                out.append(f"{ind}{lst}.iter().{s[3]}(|x| {{"); out += rb(s[2], ind + "  "); out.append(f"{ind} {tail} }}){fin};")
            elif s[0] == 'try':
                out.append(f"{ind}try {{"); out += rb(s[1], ind + "  ")
                out.append(f"{ind}}} catch e: Error {{ print('C', e.message{''.join(', ' + n for n in s[2])}); }}")
        return out
    for fi in reversed(range(len(funs))):
        np_, body = funs[fi]
        ps = ", ".join(f"p{j}_{fi}" for j in range(np_))
        L.append(f"fn f{fi}({ps}) {{"); L += rb(body, "  "); L.append(f"  return {9000 + fi};"); L.append("}")
    L.append(f"try {{ print('R', f0({', '.join(str(7000 + j) for j in range(funs[0][0]))})); }} catch e: Error {{ print('TOP', e.message); }}")
    L.append("print('END', CNT);")
    return "\n".join(L) + "\n"
def model(funs, target):
    out = []; cnt = [0]
    def run_block(stmts, env):
        for s in stmts:
            if s[0] == 'let': env[s[1]] = s[2]
            elif s[0] == 'fp':
                cnt[0] += 1
                if cnt[0] == target: raise Raise(f"F{s[1]}")
            elif s[0] == 'call': out.append(f"R {call(s[1], s[2])}")
            elif s[0] == 'print': out.append(" ".join([s[1]] + [str(env[n]) for n in s[2]]))
            elif s[0] == 'ret': raise Ret(s[1])
            elif s[0] == 'break': raise Brk()
            elif s[0] == 'continue': raise Cont()
            elif s[0] == 'cb':
                for _ in range(s[1]): run_block(s[2], env)
            elif s[0] == 'loop':
                for _ in range(s[1]):
                    try: run_block(s[2], dict(env) if False else env)
                    except Brk: break
                    except Cont: continue
            elif s[0] == 'try':
                try: run_block(s[1], env)
                except Raise as e: out.append(" ".join(['C', e.msg] + [str(env[n]) for n in s[2]]))
    def call(fi, args):
        np_, body = funs[fi]; env = {f"p{j}_{fi}": a for j, a in enumerate(args)}
        try: run_block(body, env)
        except Ret as rr: return rr.v
        return 9000 + fi
    try: out.append(f"R {call(0, [7000 + j for j in range(funs[0][0])])}")
    except Raise as e: out.append(f"TOP {e.msg}")
    out.append(f"END {cnt[0]}")
    return out, cnt[0]
binp = sys.argv[1]; n = int(sys.argv[2]); start = int(sys.argv[3]) if len(sys.argv) > 3 else 0
allow_params = '--noparams' not in sys.argv; allow_nested_exit = '--nonestedexit' not in sys.argv
bad = collections.Counter(); ex = {}; runs = 0
for seed in range(start, start + n):
    funs, nfp = gen(seed, allow_params, allow_nested_exit)
    _, dyn = model(funs, 0)
    for target in range(0, min(dyn, 12) + 1):
        exp, _ = model(funs, target); src = render(funs, target); open('fr.lay', 'w').write(src); runs += 1
        try:
            p = subprocess.run([binp, 'fr.lay'], capture_output=True, text=True, timeout=30); so, se, rc = p.stdout, p.stderr, p.returncode
        except subprocess.TimeoutExpired: so, se, rc = '', 'TIMEOUT', -9
        got = so.splitlines(); key = None
        if rc != 0: key = f'rc={rc} ' + ('panic:' + [l for l in se.splitlines() if 'panicked' in l or l.startswith('Slot') or l.startswith('Exception') or 'assert' in l][-1][:80] if 'panicked' in se else (se.strip().splitlines()[-1][:70] if se.strip() else ''))
        elif got != exp: key = 'mismatch'
        if key: bad[key] += 1; ex.setdefault(key, (seed, target, src, exp, got, se[-300:]))
print(dict(bad), 'runs', runs)
for k, (seed, target, src, exp, got, se) in list(ex.items())[:3]:
    print('=====', k, 'seed', seed, 'target', target); print(src[:2500])
    for i, (e, g) in enumerate(zip(exp, got)):
        if e != g: print('first diff at', i, 'exp', e, 'got', g); break
    print('lens', len(exp), len(got)); print(se)
