import random, subprocess, sys, collections
def gen(seed):
    r = random.Random(seed)
    nch = r.randint(1, 3)
    caps = [r.choice([0, 0, 1, 2, 3]) for _ in range(nch)]
    nsend = r.randint(1, 3); nrecv = r.randint(1, 3)
    # each sender sends k msgs on a chosen channel; receivers on each channel split the total count
    sends = []  # (sender id, ch, count)
    per_ch = collections.Counter()
    for s in range(nsend):
        ch = r.randrange(nch); k = r.randint(1, 4); sends.append((s, ch, k)); per_ch[ch] += k
    recvs = []  # (recv id, ch, count)
    rid = 0
    for ch, tot in per_ch.items():
        n = min(r.randint(1, 2), tot); left = tot
        for i in range(n):
            k = left if i == n - 1 else r.randint(1, left - (n - 1 - i)); left -= k
            recvs.append((rid, ch, k)); rid += 1
    lines = []
    for i, c in enumerate(caps):
        lines.append(f"let c{i} = chan({c});" if c else f"let c{i} = chan();")
    nf = len(sends) + len(recvs)
    lines.append(f"let done = chan({r.choice([1, nf, nf + 2])});")
    lines.append("fn snd(id, ch, k, done) { for i in k.times() { ch <- id * 100 + i; print('S', id, i); } done <- id; }")
    lines.append("fn rcv(id, ch, k, done) { for i in k.times() { let v = <- ch; print('R', id, v); } done <- 50 + id; }")
    launches = [f"launch snd({s}, c{ch}, {k}, done);" for s, ch, k in sends] + [f"launch rcv({q}, c{ch}, {k}, done);" for q, ch, k in recvs]
    r.shuffle(launches)
    lines += launches
    lines.append(f"for i in {nf}.times() {{ print('J', <- done); }}")
    lines.append("print('END');")
    return "\n".join(lines) + "\n", sends, recvs
def check(out, sends, recvs):
    sent = {s * 100 + i for s, ch, k in sends for i in range(k)}
    got = []
    per_r = collections.defaultdict(list)
    for l in out.splitlines():
        p = l.split()
        if p and p[0] == 'R': got.append(int(p[2])); per_r[int(p[1])].append(int(p[2]))
    if 'END' not in out: return 'no END'
    if sorted(got) != sorted(sent): return f'multiset mismatch {sorted(got)} vs {sorted(sent)}'
    for q, vs in per_r.items():
        last = {}
        for v in vs:
            s = v // 100
            if s in last and last[s] > v: return f'per-sender order broken at receiver {q}: {vs}'
            last[s] = v
    return None
binp = sys.argv[1]; n = int(sys.argv[2]); bad = collections.Counter(); ex = {}
for seed in range(n):
    src, sends, recvs = gen(seed)
    open('n.lay', 'w').write(src)
    try:
        p = subprocess.run([binp, 'n.lay'], capture_output=True, text=True, timeout=10)
        out, err, rc = p.stdout, p.stderr, p.returncode
    except subprocess.TimeoutExpired:
        out, err, rc = '', 'TIMEOUT', -1
    v = check(out, sends, recvs)
    if v or rc != 0:
        key = ('deadlock' if 'deadlock' in err else 'panic' if 'panicked' in err else 'timeout' if err == 'TIMEOUT' else (v or f'rc={rc}')[:30])
        bad[key] += 1; ex.setdefault(key, (seed, src, err[-300:]))
print(dict(bad))
for k, (seed, src, err) in ex.items(): print('=====', k, 'seed', seed); print(src); print(err)
