"""Fiber/channel process networks: generator, renderer, ideal model and history checker (C07, C08).

The VM's own scheduler is the system under test and is never perturbed; interleavings are reached through
the shape of the generated network. The history is the program's own stdout: every fiber prints a record
immediately after each channel operation returns (the VM switches fibers only inside channel operations
and on completion, so "operation returned" and "record written" are atomic with respect to scheduling).

Verdict zone (exclusions by construction, see known_findings.json):
  * a channel is closed only by a fiber that has itself sent to or received from it before the close and that
    does not send to it afterwards (except for a send that is expected to raise); sends of *other* fibers to a
    channel that somebody closes are guarded sends (try/catch): they either enqueue or observe the close
  * no channel operation inside a native callback
"""
import collections
import copy
import os

from . import workloads

MODEL_STATE_CAP = 200000


# ---------- generator ---------------------------------------------------------------------------

def generate(r):
    """IR: {"caps": [0 = sync | n], "scripts": [[op...]...], "main": [op...], "join": bool, "variants": [...]}
    ops: ["send", ch, value] ["recv", ch] ["close", ch] ["drain", ch] ["send_closed", ch, value]"""
    nch = r.randint(1, 3)
    caps = [r.choice([0, 0, 1, 2, 3, 4]) for _ in range(nch)]
    nf = r.randint(1, 5)
    scripts = []
    senders_of = collections.defaultdict(list)
    pattern = r.choice(["random", "random", "random", "backlog", "pingpong", "fan", "balanced", "balanced", "early_wakes", "stale_sender",
                        "parked_close", "fanout_close", "leftovers"])
    if os.environ.get("VERIF_NET_PATTERN"):
        # experiments only (measuring how often one pattern reaches a seeded change); never set by a registered command
        pattern = os.environ["VERIF_NET_PATTERN"]
    preset_spawned = {}
    preset_main = None

    if pattern == "early_wakes":
        # a receiver on a buffered channel that launches short lived children between its receives: every completing child
        # wakes its sleeping parent early, the parent finds the channel still empty and registers as a waiter once more, so
        # stale registrations pile up in the channel. The main fiber feeds the values one at a time and yields through a
        # synchronous handshake with a sink fiber in between; after the first receiver is gone a second receiver is
        # launched, parks behind the stale registrations, and only then its value is sent. Little else is going on, so a
        # wake-up that is lost here is not rescued by some other fiber's rescan
        w, ack = 0, len(caps)
        caps[w] = r.choice([1, 2, 3])
        caps.append(0)
        k = r.randint(1, 3)
        first = []
        children = []
        for i in range(k):
            for _ in range(r.randint(1, 2)):
                children.append(len(children) + 1)
                first.append(["spawn", children[-1]])
            first.append(["recv", w])
        scripts.append(first)
        for child in children:
            scripts.append([])
            preset_spawned[str(child)] = 0
        second_receives = r.randint(1, 2)
        second = len(scripts)
        scripts.append([["recv", w] for _ in range(second_receives)])
        preset_spawned[str(second)] = -1
        sink = len(scripts)
        handshakes = 0
        feed = []
        for i in range(k):
            for _ in range(r.randint(1, 2)):
                feed.append(["send", ack, 0])
                handshakes += 1
            feed.append(["send", w, 0])
        feed.append(["spawn", second])
        for i in range(second_receives):
            for _ in range(r.randint(1, 2)):
                feed.append(["send", ack, 0])
                handshakes += 1
            feed.append(["send", w, 0])
        scripts.append([["recv", ack] for _ in range(handshakes)])
        senders_of[w].append(-1)
        preset_main = feed
        nf = len(scripts)
    elif pattern == "stale_sender":
        # a sender that sleeps on an occupied synchronous channel, is woken early by its completing children, retries and
        # registers again: it leaves stale registrations of itself among the channel's senders. Later it parks on a second
        # synchronous channel while the first one is empty and open, which is when its own rescan meets those registrations.
        # Receivers are released one at a time by handshakes with the main fiber
        x, y, ack = 0, len(caps), len(caps) + 1
        caps[x] = 0
        caps += [0, 0]
        scripts.append([["send", x, 0]])
        if r.random() < 0.5:
            # the sleeper launches its children and the receiver itself; the receiver hands over to the main fiber, which is
            # already waiting, after each value it takes (a direct hand-over that needs no rescan)
            nchildren = r.randint(1, 2)
            receiver = 2 + nchildren
            launches = [["spawn", 2 + i] for i in range(nchildren)] + [["spawn", receiver]]
            r.shuffle(launches)
            scripts.append(launches + [["send", x, 0], ["send", y, 0]])
            for child in range(nchildren):
                scripts.append([])
                preset_spawned[str(2 + child)] = 1
            scripts.append([["recv", x], ["send", ack, 0], ["recv", x], ["send", ack, 0], ["recv", y]])
            preset_spawned[str(receiver)] = 1
            preset_main = [["recv", ack], ["recv", ack]]
            senders_of[ack].append(receiver)
        else:
            sleeper = [["spawn", 2 + i] for i in range(r.randint(1, 3))]
            nchildren = len(sleeper)
            sleeper += [["send", x, 0]]
            for _ in range(r.randint(0, 1)):
                sleeper.append(["spawn", 2 + nchildren])
                nchildren += 1
            sleeper += [["send", y, 0]]
            scripts.append(sleeper)
            for child in range(nchildren):
                scripts.append([])
                preset_spawned[str(2 + child)] = 1
            delay_x, delay_y = r.randint(1, 2), r.randint(1, 3)
            scripts.append([["recv", ack] for _ in range(delay_x)] + [["recv", x], ["recv", x]])
            scripts.append([["recv", ack] for _ in range(delay_y)] + [["recv", y]])
            preset_main = [["send", ack, 0] for _ in range(delay_x + delay_y)]
        senders_of[x] += [0, 1]
        senders_of[y].append(1)
        nf = len(scripts)
    elif pattern == "parked_close":
        # several receivers are parked on an empty buffered channel (each one reports on a second channel first); the main
        # fiber then puts in no more values than there are receivers and closes the channel at once, without a context
        # switch in between: what was buffered before the close is still delivered, then everybody sees the close
        w, ready = 0, len(caps)
        caps[w] = r.choice([1, 2, 3, 4])
        nrecv = r.randint(2, 3)
        caps.append(nrecv)
        for f in range(nrecv):
            scripts.append([["send", ready, 0], ["drain", w]] if r.random() < 0.8 else [["send", ready, 0], ["recv", w], ["drain", w]])
            senders_of[ready].append(f)
        m = r.randint(1, min(nrecv, caps[w]))
        preset_main = [["recv", ready] for _ in range(nrecv)] + [["send", w, 0] for _ in range(m)] + [["close", w]]
        nf = len(scripts)
    elif pattern == "fanout_close":
        # one producer, one channel per worker: the producer serves every channel, closes them all and finishes, so its
        # completion scan meets several channels that each have somebody to wake
        k = r.randint(2, 3)
        caps = [r.choice([0, 0, 1, 2]) for _ in range(k)]
        producer = []
        for ch in range(k):
            for _ in range(r.randint(0 if caps[ch] else 1, min(2, max(1, caps[ch])))):
                producer.append(["send", ch, 0])
            if not any(op[1] == ch for op in producer):
                producer.append(["send", ch, 0])
        closes = [["close", ch] for ch in range(k)]
        r.shuffle(closes)
        producer += closes
        position = r.randint(0, k)
        for ch in range(k):
            scripts.append([["drain", ch]])
        scripts.insert(position, producer)
        preset_main = []
        nf = len(scripts)
    elif pattern == "leftovers":
        # a receiver that parks on an empty buffered channel, is resumed early every time one of its children finishes and
        # registers again: when its value finally arrives one registration is used up and the others stay behind after the
        # fiber has finished. A second receiver then parks behind them and a sender that has used no other channel feeds
        # it. The main fiber never touches that channel (its own rescans cannot rescue anybody) and lets the others run
        # through 'pauses': a synchronous handshake with a sink fiber that is queued behind everybody who can run
        c, x, g, t = 0, 1, 2, 3
        caps = [r.choice([1, 1, 2]), 0, 3, 0]
        nk = r.randint(1, 3)
        gated = [r.random() < 0.5 for _ in range(nk)]
        scripts.append([["spawn", 1 + i] for i in range(nk)] + [["recv", c]])
        for i in range(nk):
            scripts.append([["recv", g]] if gated[i] else [])
            preset_spawned[str(1 + i)] = 0
        nr = r.randint(1, 2)
        feeder, second, third = len(scripts), len(scripts) + 1, len(scripts) + 2
        scripts.append([["send", c, 0], ["send", x, 0]] if r.random() < 0.7 else [["send", c, 0]])
        scripts.append([["recv", c] for _ in range(nr)])
        scripts.append([["send", c, 0] for _ in range(nr)])
        feed = []
        handshakes = [0]

        def pause(count):
            for _ in range(count):
                feed.append(["send", t, 0])
                handshakes[0] += 1

        pause(r.randint(1, 3))
        for i in range(nk):
            if gated[i]:
                feed.append(["send", g, 0])
                pause(r.randint(1, 2))
        feed.append(["spawn", feeder])
        if len(scripts[feeder]) == 2:
            feed.append(["recv", x])
        else:
            pause(1)
        feed.append(["spawn", second])
        pause(r.randint(1, 2))
        feed.append(["spawn", third])
        for fiber in (feeder, second, third):
            preset_spawned[str(fiber)] = -1
        scripts.append([["recv", t] for _ in range(handshakes[0])])
        preset_main = feed
        nf = len(scripts)
    elif pattern == "balanced":
        # count-balanced senders and receivers per channel: completes under every ideal schedule, so every lost
        # wake-up shows as a spurious deadlock
        nsend = r.randint(1, 3)
        per_channel = collections.Counter()
        for f in range(nsend):
            ch = r.randrange(nch)
            k = r.randint(1, 4)
            scripts.append([["send", ch, (f + 1) * 100 + i] for i in range(k)])
            senders_of[ch].append(f)
            per_channel[ch] += k
        for ch in sorted(per_channel):
            total = per_channel[ch]
            n = min(r.randint(1, 2), total)
            left = total
            for i in range(n):
                k = left if i == n - 1 else r.randint(1, left - (n - 1 - i))
                left -= k
                scripts.append([["recv", ch] for _ in range(k)])
        order = list(range(len(scripts)))
        r.shuffle(order)
        remap = {old: new for new, old in enumerate(order)}
        scripts = [scripts[old] for old in order]
        senders_of = collections.defaultdict(list, {ch: [remap[f] for f in fs] for ch, fs in senders_of.items()})
        # values keep their original sender prefix; only uniqueness and per-script order matter to the checker
        nf = len(scripts)
    elif pattern == "fan":
        # fan in / fan out over one channel with counts that may or may not balance
        ch = 0
        producers = r.randint(1, 3)
        consumers = r.randint(1, 3)
        nf = producers + consumers
        per = r.randint(1, 4)
        total = producers * per
        for f in range(producers):
            scripts.append([["send", ch, (f + 1) * 100 + i] for i in range(per)])
            senders_of[ch].append(f)
        shares = [total // consumers] * consumers
        for i in range(total % consumers):
            shares[i] += 1
        if r.random() < 0.3:
            shares[r.randrange(consumers)] += r.choice([-1, 1])
        for share in shares:
            scripts.append([["recv", ch] for _ in range(max(0, share))])
    else:
        for f in range(nf):
            ops = []
            for _ in range(r.randint(1, 6)):
                kind = r.choice(["send", "send", "recv", "recv"])
                ch = r.randrange(nch)
                if kind == "send":
                    ops.append(["send", ch, (f + 1) * 100 + len(ops)])
                    senders_of[ch].append(f)
                else:
                    ops.append(["recv", ch])
            scripts.append(ops)

    if pattern == "backlog":
        # fill a buffered channel with k >= 2 values, close it, then drain it elsewhere
        ch = len(caps)
        k = r.randint(2, 4)
        caps.append(k + r.randint(0, 1))
        f = r.randrange(nf)
        for i in range(k):
            scripts[f].append(["send", ch, (f + 1) * 100 + 50 + i])
        senders_of[ch].append(f)
        scripts[f].append(["close", ch])
        if r.random() < 0.6:
            scripts[f].append(["send_closed", ch, (f + 1) * 100 + 90])
        g = r.randrange(nf)
        if g == f:
            scripts[g].append(["drain", ch])
        else:
            scripts[g].insert(r.randint(0, len(scripts[g])), ["drain", ch])
    elif pattern == "pingpong" and nf >= 2:
        # a sync channel pair forcing a switch at seeded positions of two scripts
        ping, pong = len(caps), len(caps) + 1
        caps += [0, 0]
        a, b = r.sample(range(nf), 2)
        rounds = r.randint(1, 3)
        for i in range(rounds):
            scripts[a].insert(r.randint(0, len(scripts[a])), ["send", ping, (a + 1) * 100 + 70 + i])
            scripts[b].insert(r.randint(0, len(scripts[b])), ["recv", ping])
        senders_of[ping].append(a)

    # optional close by a fiber that has used the channel, and a drain by someone else
    for ch in range(len(caps)):
        if pattern in ("early_wakes", "stale_sender", "parked_close", "fanout_close", "leftovers"):
            break
        if any(op[0] == "close" and op[1] == ch for script in scripts for op in script):
            continue
        users = [f for f in range(nf) if any(op[0] in ("send", "recv") and op[1] == ch for op in scripts[f])]
        if users and r.random() < 0.5:
            f = r.choice(users)
            sends = [i for i, op in enumerate(scripts[f]) if op[0] == "send" and op[1] == ch]
            uses = [i for i, op in enumerate(scripts[f]) if op[0] in ("send", "recv") and op[1] == ch]
            # after its own last send if it sends, else after any of its uses
            last = max(sends) if sends else r.choice(uses)
            scripts[f].insert(last + 1, ["close", ch])
            if r.random() < 0.3:
                scripts[f].insert(last + 2, ["send_closed", ch, (f + 1) * 100 + 95])
            g = r.randrange(nf)
            if g != f and r.random() < 0.7:
                scripts[g].append(["drain", ch])

    closed = {}
    for f, script in enumerate(scripts):
        for op in script:
            if op[0] == "close":
                closed[op[1]] = f
    # sends of other fibers into a channel that somebody closes become guarded sends
    for f, script in enumerate(scripts):
        for op in script:
            if op[0] == "send" and op[1] in closed and closed[op[1]] != f:
                op[0] = "gsend"
    main = []
    for _ in range(0 if preset_main is not None else r.randint(0, 3)):
        kind = r.choice(["send", "recv"])
        ch = r.randrange(len(caps))
        if kind == "send":
            main.append(["gsend" if ch in closed else "send", ch, 900 + len(main)])
        else:
            main.append(["recv", ch])
    join = r.random() < 0.85
    variants = [r.choice(["fn", "lambda", "method", "capture"]) for _ in scripts]
    # some fibers are not launched by the main fiber up front but by another fiber in the middle of its script
    # (the launching fiber is then the parent that a completing child wakes)
    spawned = dict(preset_spawned)
    if preset_main is not None:
        main = preset_main
    if not preset_spawned and preset_main is None and r.random() < 0.35:
        for child in range(1, len(scripts)):
            if r.random() < 0.5:
                parent = r.randrange(-1, child)          # -1: the main fiber, later in its script
                spawned[str(child)] = parent
                owner = main if parent < 0 else scripts[parent]
                owner.insert(r.randint(0, len(owner)), ["spawn", child])
    # every sent value is unique in the whole network: renumber (fiber, position) -> value, keeping each script's order
    for f, script in enumerate(scripts):
        for number, op in enumerate(script):
            if op[0] in ("send", "gsend", "send_closed"):
                op[2] = (f + 1) * 1000 + number
    for number, op in enumerate(main):
        if op[0] in ("send", "gsend", "send_closed"):
            op[2] = 90000 + number
    # in half of the networks the values are heap objects (strings built at run time) that are reachable only
    # through the channel buffer or the parked sender while in flight
    return {"caps": caps, "scripts": scripts, "main": main, "join": join, "variants": variants, "heap": r.random() < 0.5,
            "spawned": spawned}


# ---------- starvation probe ---------------------------------------------------------------------

STARVE_BOUND = 300


def starve_generate(r):
    """Fibers that are runnable and need nothing, launched around two fibers that hand a value back and forth for as
    long as the others have not all had their turn."""
    nset = r.randint(1, 3)
    order = ["setter"] * nset + ["echo"]
    r.shuffle(order)
    return {"order": order, "ping_cap": r.choice([0, 0, 1]), "pong_cap": r.choice([0, 0, 1]), "heap": r.random() < 0.5,
            "extra_echo": r.random() < 0.3}


def starve_program(params):
    nset = params["order"].count("setter")
    lines = ["let turns = 0;", "let rounds = 0;",
             "fn setter(k) { turns = turns + 1; }",
             "fn echo(ping, pong) { let v = <- ping; while v != nil { pong <- v; v = <- ping; } }",
             "let ping = chan(%s);" % (params["ping_cap"] or ""), "let pong = chan(%s);" % (params["pong_cap"] or ""),
             "let ping2 = chan();", "let pong2 = chan();"]
    number = 0
    for what in params["order"]:
        if what == "setter":
            lines.append("launch setter(%d);" % number)
            number += 1
        else:
            lines.append("launch echo(ping, pong);")
            if params["extra_echo"]:
                lines.append("launch echo(ping2, pong2);")
    payload = "'r${rounds}'" if params["heap"] else "rounds"
    second = " ping2 <- %s; <- pong2;" % payload if params["extra_echo"] else ""
    lines.append("while turns < %d && rounds < %d { ping <- %s; <- pong;%s rounds = rounds + 1; }" % (nset, STARVE_BOUND, payload, second))
    lines.append("ping.close(); ping2.close();")
    lines.append("print('STARVE', turns, rounds);")
    return {"name": "starve", "main": workloads.MAIN, "files": {workloads.MAIN: "\n".join(lines) + "\n"}}


def starve_check(result, params):
    nset = params["order"].count("setter")
    for line in result["stdout"].splitlines():
        if line.startswith("STARVE "):
            _, turns, rounds = line.split()
            if int(turns) != nset or int(rounds) >= STARVE_BOUND:
                return [("a launched fiber that is able to run did not get its turn",
                         "%s of %d fibers that need nothing had run after %s hand-overs between two other fibers" % (turns, nset, rounds))]
            return []
    return [("a program whose fibers can all finish did not finish", "no verdict line; exit %s, stderr %s" % (
        result.get("vmexit"), result.get("stderr", "")[-300:]))]


# ---------- renderer ----------------------------------------------------------------------------

def render_ops(ops, fid, heap=False, launch_text=None):
    out = []
    for op in ops:
        if op[0] == "spawn":
            out.append("%s print('L', %d, %d);" % (launch_text[op[1]], fid, op[1] + 1))
            continue
        if heap and op[0] in ("send", "send_closed", "gsend"):
            op = [op[0], op[1], "'v${%d}'" % op[2], op[2]]
        elif op[0] in ("send", "send_closed", "gsend"):
            op = [op[0], op[1], "%d" % op[2], op[2]]
        if op[0] == "send":
            out.append("c%d <- %s; print('S', %d, %d, %d, c%d.len());" % (op[1], op[2], fid, op[1], op[3], op[1]))
        elif op[0] == "recv":
            out.append("print('R', %d, %d, <- c%d, c%d.len());" % (fid, op[1], op[1], op[1]))
        elif op[0] == "close":
            out.append("c%d.close(); print('X', %d, %d);" % (op[1], fid, op[1]))
        elif op[0] in ("send_closed", "gsend"):
            out.append("try { c%d <- %s; print('S', %d, %d, %d, c%d.len()); } catch e: Error { print('E', %d, %d, %d); }" % (
                op[1], op[2], fid, op[1], op[3], op[1], fid, op[1], op[3]))
        elif op[0] == "drain":
            out.append("if true { let v = <- c%d; while v != nil { print('R', %d, %d, v, c%d.len()); v = <- c%d; } print('N', %d, %d, c%d.len()); }" % (
                op[1], fid, op[1], op[1], op[1], fid, op[1], op[1]))
    return out


def tag_of(fid):
    return fid * 7 + 3


def render(ir):
    caps, scripts, main, join = ir["caps"], ir["scripts"], ir["main"], ir["join"]
    lines = ["let c%d = chan(%d);" % (i, c) if c else "let c%d = chan();" % i for i, c in enumerate(caps)]
    nf = len(scripts)
    lines.append("let done = chan(%d);" % max(1, nf))
    params = ", ".join("c%d" % i for i in range(len(caps)))
    launches = {}
    definitions = {}
    spawned = ir.get("spawned") or {}
    for f in range(len(scripts)):
        variant = ir["variants"][f] if f < len(ir["variants"]) else "fn"
        fid = f + 1
        if variant in ("fn", "lambda"):
            launches[f] = "launch fib%d(%s, done, %d);" % (f, params, tag_of(fid))
        elif variant == "method":
            launches[f] = "launch W%d(%d).run(%s, done);" % (f, tag_of(fid), params)
        else:
            launches[f] = "launch mk%d(%s, done, %d)();" % (f, params, tag_of(fid))
    for f, ops in enumerate(scripts):
        variant = ir["variants"][f] if f < len(ir["variants"]) else "fn"
        fid = f + 1
        inner = render_ops(ops, fid, ir.get("heap"), launches)
        if f in ir.get("callback_fibers", []):
            # outside the verdict zone (pinned known finding): the fiber's operations run inside a native callback
            inner = ["[0].iter().each(|x| {"] + inner + ["});"]
        body = ["  " + text for text in inner] + ["  print('D', %d, tag); done <- %d;" % (fid, fid)]
        if variant == "fn":
            definitions[f] = ["fn fib%d(%s, done, tag) {" % (f, params)] + body + ["}"]
        elif variant == "lambda":
            definitions[f] = ["let fib%d = |%s, done, tag| {" % (f, params)] + body + ["};"]
        elif variant == "method":
            definitions[f] = ["class W%d { init(tag) { self.tag = tag; } run(%s, done) { let tag = self.tag;" % (f, params)] + body + ["} }"]
        else:
            # closure capturing its channels and tag through an enclosing function scope
            definitions[f] = ["fn mk%d(%s, done, tag) { || {" % (f, params)] + body + ["} }"]
    # a fiber is only ever spawned by a fiber with a smaller index: define in reverse so every launch target exists
    for f in reversed(range(len(scripts))):
        lines += definitions[f]
    lines += [launches[f] for f in range(len(scripts)) if str(f) not in spawned]
    lines += render_ops(main, 0, ir.get("heap"), launches)
    if join:
        lines.append("for i in %d.times() { print('J', <- done); }" % nf)
    lines.append("print('END', %s);" % ", ".join("c%d.len()" % i for i in range(len(caps))))
    return "\n".join(lines) + "\n"


def program(ir):
    return {"name": "net", "main": workloads.MAIN, "files": {workloads.MAIN: render(ir)}}


# ---------- ideal model -------------------------------------------------------------------------

def explore(ir, cap_states=MODEL_STATE_CAP):
    """The set of outcomes ({'complete', 'deadlock'}) the ideal semantics allows: channels are bounded FIFOs,
    send/receive block, a synchronous sender continues only after its value was taken, any schedule.
    Exhaustive memoised search over the *model's* transition system (not over the implementation).
    Returns None when the state cap is hit."""
    caps, scripts, main, join = ir["caps"], ir["scripts"], ir["main"], ir["join"]
    nf = len(scripts)
    progs = [list(map(tuple, main)) + ([("recv", "done")] * nf if join else [])]
    progs += [list(map(tuple, script)) + [("send", "done", -(f + 1))] for f, script in enumerate(scripts)]
    chans = list(range(len(caps))) + ["done"]
    capof = {i: (c if c else 1) for i, c in enumerate(caps)}
    capof["done"] = max(1, nf)
    sync = {i: (c == 0) for i, c in enumerate(caps)}
    sync["done"] = False
    ci = {c: i for i, c in enumerate(chans)}
    spawned = ir.get("spawned") or {}
    # phase 3: not launched yet
    init = (tuple(0 for _ in progs), tuple(3 if str(f - 1) in spawned else 0 for f in range(len(progs))),
            tuple(() for _ in chans), tuple(False for _ in chans))
    seen = set()
    outcomes = set()
    stack = [init]
    while stack:
        st = stack.pop()
        if st in seen:
            continue
        seen.add(st)
        if len(seen) > cap_states:
            return None
        pcs, ph, qs, closed = st
        if pcs[0] >= len(progs[0]) and ph[0] == 0:
            outcomes.add("complete")
            continue
        succ = []
        for f, prog in enumerate(progs):
            pc = pcs[f]
            if pc >= len(prog) and ph[f] == 0:
                continue

            def upd(npc=None, nph=None, nq=None, ncl=None, f=f):
                p2, h2, q2, c2 = list(pcs), list(ph), list(qs), list(closed)
                if npc is not None:
                    p2[f] = npc
                if nph is not None:
                    h2[f] = nph
                if nq is not None:
                    q2[nq[0]] = nq[1]
                if ncl is not None:
                    c2[ncl] = True
                return (tuple(p2), tuple(h2), tuple(q2), tuple(c2))

            if ph[f] == 3:
                continue
            if ph[f] == 1:
                op = prog[pc]
                k = ci[op[1]]
                if op[2] not in qs[k]:
                    succ.append(upd(npc=pc + 1, nph=0))
                continue
            op = prog[pc]
            if op[0] == "spawn":
                p2, h2 = list(pcs), list(ph)
                p2[f] = pc + 1
                h2[op[1] + 1] = 0
                succ.append((tuple(p2), tuple(h2), qs, closed))
            elif op[0] == "send":
                k = ci[op[1]]
                if closed[k]:
                    outcomes.add("error")
                    continue
                if len(qs[k]) < capof[op[1]]:
                    if sync[op[1]]:
                        succ.append(upd(nph=1, nq=(k, qs[k] + (op[2],))))
                    else:
                        succ.append(upd(npc=pc + 1, nq=(k, qs[k] + (op[2],))))
            elif op[0] == "send_closed":
                k = ci[op[1]]
                if closed[k]:
                    succ.append(upd(npc=pc + 1))
                else:
                    outcomes.add("error")
                    continue
            elif op[0] == "gsend":
                # a guarded send either enqueues or, once the channel is closed, observes the close and goes on
                k = ci[op[1]]
                if closed[k]:
                    succ.append(upd(npc=pc + 1))
                elif len(qs[k]) < capof[op[1]]:
                    if sync[op[1]]:
                        succ.append(upd(nph=1, nq=(k, qs[k] + (op[2],))))
                    else:
                        succ.append(upd(npc=pc + 1, nq=(k, qs[k] + (op[2],))))
            elif op[0] == "recv":
                k = ci[op[1]]
                if qs[k]:
                    succ.append(upd(npc=pc + 1, nq=(k, qs[k][1:])))
                elif closed[k]:
                    succ.append(upd(npc=pc + 1))
            elif op[0] == "drain":
                k = ci[op[1]]
                if qs[k]:
                    succ.append(upd(nq=(k, qs[k][1:])))
                elif closed[k]:
                    succ.append(upd(npc=pc + 1))
            elif op[0] == "close":
                k = ci[op[1]]
                if closed[k]:
                    outcomes.add("error")
                    continue
                succ.append(upd(npc=pc + 1, ncl=k))
        if not succ:
            outcomes.add("deadlock")
        else:
            stack.extend(succ)
    return outcomes


def determinate(ir):
    """Kahn network: every channel has one writer and one reader fiber, nobody closes or drains."""
    writers = collections.defaultdict(set)
    readers = collections.defaultdict(set)
    for f, script in enumerate([ir["main"]] + ir["scripts"]):
        for op in script:
            if op[0] in ("close", "drain", "send_closed", "gsend", "spawn"):
                return False
            if op[0] == "send":
                writers[op[1]].add(f)
            elif op[0] == "recv":
                readers[op[1]].add(f)
    return all(len(v) <= 1 for v in writers.values()) and all(len(v) <= 1 for v in readers.values())


# ---------- outcome and history ----------------------------------------------------------------

def classify(result):
    if result.get("crash"):
        return "crash"
    panic = result.get("panic")
    if panic:
        return "step-budget" if panic.get("kind") == "step_budget" else "host-panic"
    if "Fatal error deadlock." in result["stderr"]:
        return "deadlock"
    lines = result["stdout"].rstrip().splitlines()
    if result["vmexit"] == "ok" and lines and lines[-1].startswith("END"):
        return "complete"
    return "other(%s)" % result["vmexit"]


def parse(stdout):
    return [line.split() for line in stdout.splitlines() if line.strip()]


def check_history(stdout, ir, outcome):
    """Channel clauses (C07). Returns a list of (clause, detail)."""
    caps = ir["caps"]
    problems = []
    sent = {}
    position = {}
    scripts = [ir["main"]] + ir["scripts"]
    for f, script in enumerate(scripts):
        for number, op in enumerate(script):
            if op[0] in ("send", "send_closed", "gsend"):
                sent[op[2]] = (f, op[1], op[0])
                position[op[2]] = number
    received = []
    order = collections.defaultdict(list)
    post = {}
    closed_at = {}
    sends_returned = collections.Counter()
    receives = collections.Counter()
    nil_after = collections.defaultdict(list)
    final_len = None
    records = parse(stdout)
    for idx, p in enumerate(records):
        try:
            if p[0] == "R":
                ch = int(p[2])
                cap = caps[ch] or 1
                if p[3] == "nil":
                    nil_after[ch].append(idx)
                    if ch not in closed_at:
                        problems.append(("receive yielded nil on an open channel", "record %d: %s" % (idx, " ".join(p))))
                    elif int(p[4]) > 0:
                        problems.append(("receive yielded nil although the closed channel still holds values",
                                         "record %d: %s" % (idx, " ".join(p))))
                    continue
                v = int(p[3][1:]) if (ir.get("heap") and p[3].startswith("v")) else int(p[3])
                if v not in sent:
                    problems.append(("a value was received that was never sent", "value %d in record %d" % (v, idx)))
                    continue
                if sent[v][1] != ch:
                    problems.append(("a value was received on a different channel than it was sent to", "value %d" % v))
                if sent[v][2] == "send_closed":
                    problems.append(("a value sent after close was delivered", "value %d" % v))
                received.append(v)
                receives[ch] += 1
                order[(sent[v][0], ch)].append(v)
                if int(p[4]) > cap:
                    problems.append(("channel held more than its capacity", "len %s > capacity %d in record %d" % (p[4], cap, idx)))
                if caps[ch] == 0 and v in post:
                    problems.append(("synchronous sender proceeded before its value was taken", "value %d" % v))
                if nil_after[ch]:
                    problems.append(("a value was delivered after the channel had yielded nil", "value %d" % v))
            elif p[0] == "S":
                ch = int(p[2])
                v = int(p[3])
                cap = caps[ch] or 1
                post[v] = idx
                sends_returned[ch] += 1
                if int(p[4]) > cap:
                    problems.append(("channel held more than its capacity", "len %s > capacity %d in record %d" % (p[4], cap, idx)))
                # (a synchronous sender prints its record only after its value was taken, which may be after a close
                # that happened while it was parked; only buffered sends are judged here)
                if ch in closed_at and caps[ch] > 0:
                    problems.append(("send into a closed channel did not raise", "value %d after close of channel %d" % (v, ch)))
            elif p[0] == "N":
                # end of a drain loop: the receive that ended it yielded nil
                if len(p) > 3 and int(p[3]) > 0:
                    problems.append(("receive yielded nil although the closed channel still holds values",
                                     "record %d: %s" % (idx, " ".join(p))))
            elif p[0] == "X":
                closed_at[int(p[2])] = idx
            elif p[0] == "E":
                if int(p[2]) not in closed_at:
                    problems.append(("send raised on an open channel", " ".join(p)))
            elif p[0] == "END":
                final_len = [int(x) for x in p[1:]]
        except (ValueError, IndexError):
            problems.append(("unparsable history record", " ".join(p)))
    if len(set(received)) != len(received):
        dup = [v for v, n in collections.Counter(received).items() if n > 1]
        problems.append(("a value was delivered more than once", "values %s" % dup))
    for key, values in order.items():
        if values != sorted(values, key=lambda v: position[v]):
            problems.append(("values of one sender arrived out of order", "sender %d channel %d: %s" % (key[0], key[1], values)))
    if outcome == "complete" and final_len is not None:
        for ch, cap in enumerate(caps):
            if ch >= len(final_len):
                continue
            enqueued = receives[ch] + final_len[ch]
            if cap > 0 and sends_returned[ch] != enqueued:
                problems.append(("sent values are neither received nor still buffered",
                                 "channel %d: %d sends returned, %d received, %d buffered at the end" % (
                                     ch, sends_returned[ch], receives[ch], final_len[ch])))
            if cap == 0 and not (sends_returned[ch] <= enqueued <= sends_returned[ch] + len(scripts)):
                problems.append(("sent values are neither received nor still buffered",
                                 "sync channel %d: %d sends returned, %d received, %d pending" % (
                                     ch, sends_returned[ch], receives[ch], final_len[ch])))
    return problems


def check_progress(result, ir, outcome, allowed):
    """Scheduler clauses (C08). Returns a list of (clause, detail)."""
    problems = []
    records = parse(result["stdout"])
    if outcome in ("crash", "host-panic"):
        problems.append(("network ended in a host failure", str(result.get("panic") or result.get("crash"))[:300]))
        return problems
    if outcome == "step-budget":
        problems.append(("network neither finished nor reported deadlock within the step budget (hang or spin)",
                         "%d instructions" % result["steps"]))
        return problems
    if allowed is not None and outcome not in allowed:
        if outcome == "deadlock":
            problems.append(("deadlock reported although every ideal schedule completes", "allowed %s" % sorted(allowed)))
        elif outcome == "complete":
            problems.append(("program completed although every ideal schedule deadlocks", "allowed %s" % sorted(allowed)))
        else:
            problems.append(("network ended neither by completion nor by a deadlock report", "%s; stderr %r" % (
                outcome, result["stderr"][:200])))
    elif allowed is None and outcome not in ("complete", "deadlock"):
        problems.append(("network ended neither by completion nor by a deadlock report", "%s; stderr %r" % (
            outcome, result["stderr"][:200])))
    seen_end = False
    done = {}
    joined = []
    for p in records:
        if seen_end:
            problems.append(("output after the main fiber ended", " ".join(p)))
            break
        if p[0] == "END":
            seen_end = True
        elif p[0] == "D":
            try:
                done[int(p[1])] = int(p[2])
            except (ValueError, IndexError):
                problems.append(("launch did not pass its argument", " ".join(p)))
        elif p[0] == "J":
            joined.append(p[1])
    for fid, tag in done.items():
        if tag != tag_of(fid):
            problems.append(("launch did not pass its argument", "fiber %d saw tag %d" % (fid, tag)))
    if outcome == "complete" and ir["join"]:
        missing = [f + 1 for f in range(len(ir["scripts"])) if (f + 1) not in done]
        if missing:
            problems.append(("program completed without every joined fiber's effects", "fibers %s never finished" % missing))
        if sorted(joined) != sorted(str(f + 1) for f in range(len(ir["scripts"]))):
            problems.append(("program completed without every joined fiber's effects", "join tokens %s" % joined))
    if outcome == "deadlock" and result["vmexit"] != "runtime":
        problems.append(("deadlock reported without a failing exit status", str(result["vmexit"])))
    return problems


def signature(stdout):
    """The interleaving that happened: the sequence of (fiber, op, channel, outcome class)."""
    parts = []
    for p in parse(stdout):
        if p[0] in ("S", "R"):
            parts.append("%s%s.%s%s" % (p[0], p[1], p[2], "n" if (len(p) > 3 and p[3] == "nil") else ""))
        elif p[0] in ("X", "E", "N", "D", "J"):
            parts.append("%s%s" % (p[0], p[1]))
        elif p[0] == "L":
            parts.append("L%s>%s" % (p[1], p[2]))
    return " ".join(parts)


# ---------- shrinking -----------------------------------------------------------------------------

def shrink(ir):
    """Smaller networks: drop a fiber, drop one operation, turn the join off."""
    if ir.get("spawned"):
        # launch everything from main up front
        candidate = copy.deepcopy(ir)
        candidate["spawned"] = {}
        candidate["main"] = [op for op in candidate["main"] if op[0] != "spawn"]
        candidate["scripts"] = [[op for op in script if op[0] != "spawn"] for script in candidate["scripts"]]
        yield candidate
    for f in range(len(ir["scripts"])):
        if len(ir["scripts"]) > 1 and not ir.get("spawned"):
            candidate = copy.deepcopy(ir)
            del candidate["scripts"][f]
            del candidate["variants"][f]
            yield candidate
    for f in range(len(ir["scripts"])):
        for i in range(len(ir["scripts"][f])):
            if ir["scripts"][f][i][0] == "spawn":
                continue
            candidate = copy.deepcopy(ir)
            del candidate["scripts"][f][i]
            yield candidate
    for i in range(len(ir["main"])):
        if ir["main"][i][0] == "spawn":
            continue
        candidate = copy.deepcopy(ir)
        del candidate["main"][i]
        yield candidate
    for f in range(len(ir["variants"])):
        if ir["variants"][f] != "fn":
            candidate = copy.deepcopy(ir)
            candidate["variants"][f] = "fn"
            yield candidate


def valid_zone(ir):
    """Is the network inside the verdict zone (used to reject shrink candidates that leave it)."""
    if ir.get("callback_fibers"):
        return False
    scripts = [ir["main"]] + ir["scripts"]
    closer = {}
    for f, script in enumerate(scripts):
        used = set()
        closed_here = set()
        for op in script:
            if op[0] in ("send", "recv", "gsend", "drain"):
                if op[0] == "send" and op[1] in closed_here:
                    return False
                used.add(op[1])
            elif op[0] == "close":
                # the closer must have used the channel before closing it, and nobody else closes it
                if op[1] not in used or op[1] in closer:
                    return False
                closer[op[1]] = f
                closed_here.add(op[1])
            elif op[0] == "send_closed" and op[1] not in closed_here:
                return False
    # plain sends into a channel somebody else closes must be guarded
    for f, script in enumerate(scripts):
        for op in script:
            if op[0] == "send" and op[1] in closer and closer[op[1]] != f:
                return False
    return True
