"""C10 - object identity is stable under mutation; any value works as a map key.

Workload: mutation histories through aliases held in locals/parameters, module variables, instance fields,
nested list elements, map keys, tuple elements, closure captures, channel buffers and the parameters of
*other fibers* parked on a channel (the mutation happens in one fiber while another holds the alias across
a context switch). Observations: == between aliases, Map has/get, List/Tuple has/index, length, contents.
Oracle: a reference heap - objects have immutable ids, aliases are ids, contents are plain lists/dicts.

Known finding C10-forwarded-list-identity (pinned): once a list has grown past its capacity it is forwarded
and only the current fiber's stack is rewritten, so an identity observation on a grown list with at least
one side read from a non-stack location may answer wrongly. Exclusion by construction: exactly those
observations are not generated (identity between two locals of the running function is still checked for
grown lists, and every content observation is).
"""
import copy

from . import core, schedules, workloads
from .runner import Check


class Obj:
    def __init__(self, oid, kind, items):
        self.id = oid
        self.kind = kind
        self.items = items
        self.cap = max(len(items), 4) if kind == "list" else None
        self.grown = False
        # how often the list has moved; a reference stored somewhere else than the running fiber's stack is current only
        # if it was stored after the latest move
        self.epoch = 0
        # moved by another fiber: the locals of this fiber were not rewritten
        self.tainted = False


def generate(r, in_fn, allow_exempt=False):
    objs = []
    variables = {}
    expect = []
    stats = {"exempted": 0, "observations": 0, "grown": 0}
    holder = []
    big_keys = []
    map_keys = []
    temp_keys = []   # values of Box instances that only the map M refers to
    boxed = [None]
    captured = [None]
    in_tuple = [None]
    observers = []   # (index, obj)
    body = ["let H = [];", "let M = {};", "let B = Box(nil);", "let BIG = {};", "for i in 150.times() { BIG[i] = i; }"]

    def literal(o):
        return "[" + ", ".join(str(x) for x in o.items) + "]"

    def new_object():
        kind = r.choice(["list", "list", "list", "map", "inst", "list", "tuple", "closure", "subinst"])
        oid = len(objs)
        if kind == "list":
            o = Obj(oid, "list", [r.randint(0, 9) for _ in range(r.choice([0, 1, 3, 4, 4, 5, 8]))])
            source = literal(o)
        elif kind == "map":
            o = Obj(oid, "map", {})
            source = "{}"
        elif kind == "tuple":
            # immutable, still an object with an identity of its own: two tuples with equal elements are two keys
            o = Obj(oid, "tuple", [r.randint(0, 3), r.randint(0, 3)])
            source = "(%d, %d)" % (o.items[0], o.items[1])
        elif kind == "subinst":
            # an instance of a subclass whose init assigns the inherited field again and adds one of its own; the field is
            # read and written by name and through the methods of the base class
            o = Obj(oid, "subinst", [r.randint(0, 9), 7])
            source = "SubBox(%d)" % o.items[0]
        elif kind == "closure":
            o = Obj(oid, "closure", [r.randint(0, 3)])
            source = "mkconst(%d)" % o.items[0]
        else:
            o = Obj(oid, "inst", [r.randint(0, 9)])
            source = "Box(%d)" % o.items[0]
        objs.append(o)
        name = "a%d" % len(variables)
        variables[name] = o
        body.append("let %s = %s;" % (name, source))

    stamps = {}      # (place, object id) -> epoch of the list when the reference was stored there

    def stamp(place, o):
        stamps[(place, o.id)] = o.epoch

    def current(place, o):
        return o.kind != "list" or stamps.get((place, o.id)) == o.epoch

    def observe(expr, value, involved, stack_only=False, stored=None):
        moved = [o for o in involved if o.kind == "list" and o.grown]
        if moved and not allow_exempt:
            # the pinned finding: a reference outside the running fiber's stack is not rewritten when its list moves. What
            # remains enforced: locals of the running function among each other, and references that were stored after
            # the latest move (they were copied from a rewritten local)
            fine = in_fn and not any(o.tainted for o in moved) and (
                stack_only or (stored is not None and all(current(place, o) for place, o in stored)))
            if not fine:
                stats["exempted"] += 1
                return
        body.append("print(%s);" % expr)
        expect.append(value)
        stats["observations"] += 1

    def mutate_list(target, o, through_fiber=None):
        m = r.choice(["push", "push", "push", "pop", "insert", "remove", "set", "clear", "pushmany"])
        x = r.randint(10, 99)
        text = None
        if m == "pushmany":
            # one call that makes the list outgrow its block several times over
            values = [r.randint(10, 99) for _ in range(r.randint(13, 40))]
            text = "%s.push(%s);" % (target, ", ".join(str(v) for v in values))
            o.items.extend(values)
        elif m == "push":
            text = "%s.push(%d);" % (target, x)
            o.items.append(x)
        elif m == "insert":
            text = "%s.insert(0, %d);" % (target, x)
            o.items.insert(0, x)
        elif m == "pop" and o.items:
            text = "%s.pop();" % target
            o.items.pop()
        elif m == "remove" and o.items:
            text = "%s.remove(0);" % target
            o.items.pop(0)
        elif m == "set" and o.items:
            text = "%s[0] = %d;" % (target, x)
            o.items[0] = x
        elif m == "clear":
            text = "%s.clear();" % target
            o.items.clear()
        if len(o.items) > o.cap:
            if not o.grown:
                stats["grown"] += 1
            o.grown = True
            o.epoch += 1
            while o.cap < len(o.items):
                o.cap = max(o.cap * 2, 1)
        return text

    new_object()
    for _ in range(r.randint(6, 30)):
        act = r.choice(["new", "alias", "hold", "key", "box", "mut", "mut", "mut", "mut", "eq", "eq", "hhas", "mhas", "len",
                        "boxeq", "capture", "tuple", "observer", "fobs", "fobs", "fmut", "viaholder", "viabox", "growcall",
                        "growcall", "bigkey", "itermut", "itermut", "table", "table", "copy", "copy", "tempkey", "walk", "walk",
                        "pairs", "growkey", "growkey"])
        names = list(variables)
        a = r.choice(names)
        o = variables[a]
        if act == "new":
            new_object()
        elif act == "alias":
            name = "a%d" % len(variables)
            variables[name] = o
            body.append("let %s = %s;" % (name, a))
        elif act == "hold":
            body.append("H.push(%s);" % a)
            holder.append(o)
            stamp("H%d" % (len(holder) - 1), o)
        elif act == "key":
            if o not in map_keys:
                body.append("M[%s] = %d;" % (a, o.id))
                map_keys.append(o)
                stamp("M", o)
        elif act == "box":
            body.append("B.v = %s;" % a)
            boxed[0] = o
            stamp("B", o)
        elif act == "capture" and captured[0] is None:
            body.append("let getter = mkgetter(%s);" % a)
            captured[0] = o
            stamp("cap", o)
        elif act == "tuple" and in_tuple[0] is None:
            body.append("let T = (%s, 1);" % a)
            in_tuple[0] = o
            stamp("T", o)
        elif act == "observer" and len(observers) < 2 and o.kind in ("list", "inst"):
            k = len(observers)
            body.append("let ask%d = chan(1); let answer%d = chan(1); launch observer(%s, ask%d, answer%d);" % (k, k, a, k, k))
            observers.append((k, o))
        elif act == "mut" and o.kind == "list":
            text = mutate_list(a, o)
            if text:
                body.append(text)
        elif act == "table" and in_fn and len(names) >= 2:
            # a list collected by a native from an iterator without a size hint has outgrown its first block inside the
            # native (five or more elements): it is born forwarded, and has/index on a moved receiver rescan the stack, so
            # they find locals by identity even when those are grown lists themselves
            members = [r.choice(names) for _ in range(r.randint(5, 7))]
            probe = r.choice(names)
            moved = [name for name in names if variables[name].kind == "list" and variables[name].grown]
            if moved and r.random() < 0.6:
                # the searched value is itself a list that has moved, and it is a member
                probe = r.choice(moved)
                members[r.randrange(len(members))] = probe
            tname = "t%d" % len(body)
            body.append("let %s = [%s].iter().filter(|x| true).list();" % (tname, ", ".join(members)))
            ids = [variables[m] for m in members]
            target = variables[probe]
            body.append("print(%s.has(%s), %s.index(%s), %s.len());" % (tname, probe, tname, probe, tname))
            position = next((i for i, candidate in enumerate(ids) if candidate is target), None)
            expect.append("%s %s %d" % ("true" if position is not None else "false", position if position is not None else "nil", len(members)))
            stats["observations"] += 1
        elif act == "growkey" and o.kind == "list" and in_fn and not o.tainted:
            # the list moves (by one push of many values, or by an insert into an exactly full block), is then used as a
            # key and stored two levels deep, a few list natives run, and the fresh references must still find it
            if r.random() < 0.5:
                values = [r.randint(10, 99) for _ in range(r.randint(13, 40))]
                body.append("%s.push(%s);" % (a, ", ".join(str(v) for v in values)))
                o.items.extend(values)
            else:
                while len(o.items) < o.cap:
                    body.append("%s.push(%d);" % (a, len(o.items)))
                    o.items.append(len(o.items))
                x = r.randint(10, 99)
                body.append("%s.insert(%d, %d);" % (a, r.choice([0, len(o.items)]) if False else 0, x))
                o.items.insert(0, x)
            if len(o.items) > o.cap:
                if not o.grown:
                    stats["grown"] += 1
                o.grown = True
                o.epoch += 1
                while o.cap < len(o.items):
                    o.cap = max(o.cap * 2, 1)
            k = len(body)
            body.append("let mk%d = {}; mk%d[%s] = %d; let deep%d = [[%s]];" % (k, k, a, o.id, k, a))
            body.append("print(%s.has(-5), %s.index(-5), %s.len(), deep%d[0].has(%s));" % (a, a, a, k, a))
            expect.append("false nil %d true" % len(o.items))
            body.append("print(mk%d.has(%s), mk%d.get(%s), deep%d[0][0] == %s, [%s].has(deep%d[0][0]));" % (k, a, k, a, k, a, a, k))
            expect.append("true %d true true" % o.id)
            stats["observations"] += 2
        elif act == "copy" and o.kind == "list":
            # sort, slice, rev and the collectors answer with a new object, whatever the length of the receiver: it is not
            # the receiver, it is not any other list, and a later mutation of either is not seen through the other
            how = r.choice(["sort", "sort", "slice", "slice1", "rev", "list", "collect"])
            if how == "sort":
                items, source = sorted(o.items), "%s.sort(|x, y| x - y)" % a
            elif how == "slice":
                items, source = list(o.items), "%s.slice()" % a
            elif how == "slice1":
                items, source = list(o.items[1:]), "%s.slice(1)" % a
            elif how == "rev":
                items, source = list(reversed(o.items)), "%s.rev()" % a
            elif how == "list":
                items, source = list(o.items), "%s.iter().list()" % a
            else:
                items, source = list(o.items), "%s.iter().into(List.collect)" % a
            fresh = Obj(len(objs), "list", items)
            # (sort, slice and rev size the copy like a literal; the collectors size it from the iterator's hint, exactly)
            if how in ("list", "collect"):
                fresh.cap = len(items)
            objs.append(fresh)
            name = "a%d" % len(variables)
            variables[name] = fresh
            body.append("let %s = %s;" % (name, source))
            observe("%s == %s" % (name, a), "false", [o], stack_only=True)
            body.append("print(%s);" % name)
            expect.append("[%s]" % ", ".join(str(x) for x in items))
            stats["observations"] += 1
        elif act == "tempkey":
            # a key that nothing but the map refers to
            x = r.randint(100, 999)
            body.append("M[Box(%d)] = %d;" % (x, x))
            temp_keys.append(x)
        elif act == "walk":
            # walking the map reaches every key object, including the ones only the map keeps alive
            total = sum(temp_keys) + sum(k.items[0] for k in map_keys if k.kind == "inst")
            body.append("if true { let s = 0; let n = 0; for kv in M { n = n + 1; if kv[0].cls() == Box { s = s + kv[0].v; } } print(s, n, M.len()); }")
            expect.append("%d %d %d" % (total, len(temp_keys) + len(map_keys), len(temp_keys) + len(map_keys)))
            stats["observations"] += 1
        elif act == "pairs" and o.kind == "map" and len(o.items) >= 2:
            # every step of a map iterator hands out an entry of its own: entries kept by the program stay what they were
            body.append("if true { let kept = []; for kv in %s { kept.push(kv); } let direct = %s.iter().list(); "
                        "print(kept[0] == kept[1], direct[0] == direct[1], kept.iter().map(|kv| kv[0]).reduce(0, |x, y| x + y), "
                        "direct.iter().map(|kv| kv[1]).reduce(0, |x, y| x + y), kept.len()); }" % (a, a))
            expect.append("false false %d %d %d" % (sum(o.items), sum(o.items.values()), len(o.items)))
            stats["observations"] += 1
        elif act == "bigkey":
            # any value works as a key, also in a map that has grown to a few hundred entries: equal numbers (0 and -0,
            # 2 and 2.0) find the same entry, objects find theirs
            probe = r.choice([("0 * -1", "0"), ("-0", "0"), ("2.0", "2"), ("149", "149"), ("7.5", None), ("-1", None), ("150", None)])
            body.append("print(BIG.has(%s), BIG.get(%s));" % (probe[0], probe[0]))
            expect.append("true %s" % probe[1] if probe[1] is not None else "false nil")
            stats["observations"] += 1
            if o.kind != "list" or not o.grown or allow_exempt:
                if o not in big_keys:
                    body.append("BIG[%s] = %d;" % (a, 1000 + o.id))
                    big_keys.append(o)
                body.append("print(BIG.has(%s), BIG[%s]);" % (a, a))
                expect.append("true %d" % (1000 + o.id))
                stats["observations"] += 1
        elif act == "itermut" and o.kind == "list" and 2 <= len(o.items) <= 6:
            # a live iterator is one more alias: a mutation made through another alias while the loop runs is visible to it.
            # The first element has been read when the body mutates: it appends one element and replaces the last old one
            # (index >= 1), so the loop must see exactly the final contents
            x, y = r.randint(100, 199), r.randint(200, 299)
            body.append("if true { let seen = []; for v in %s { if seen.len() == 0 { %s.push(%d); %s[%d] = %d; } seen.push(v); } print(seen); }" % (
                a, a, x, a, len(o.items) - 1, y))
            o.items[len(o.items) - 1] = y
            o.items.append(x)
            if len(o.items) > o.cap:
                if not o.grown:
                    stats["grown"] += 1
                o.grown = True
                o.epoch += 1
                while o.cap < len(o.items):
                    o.cap = max(o.cap * 2, 1)
            expect.append("[%s]" % ", ".join(str(v) for v in o.items))
            stats["observations"] += 1
        elif act == "growcall" and o.kind == "list":
            # the mutation happens in a callee frame while this frame keeps its aliases; the list comes back as a new alias
            x = r.randint(10, 99)
            name = "a%d" % len(variables)
            variables[name] = o
            body.append("let %s = grow(%s, %d);" % (name, a, x))
            o.items.append(x)
            if len(o.items) > o.cap:
                if not o.grown:
                    stats["grown"] += 1
                o.grown = True
                o.epoch += 1
                while o.cap < len(o.items):
                    o.cap = max(o.cap * 2, 1)
            observe("%s == %s" % (a, name), "true", [o], stack_only=True)
        elif act == "viaholder" and holder:
            i = r.randrange(len(holder))
            target = holder[i]
            if target.kind == "list":
                text = mutate_list("H[%d]" % i, target)
                if text:
                    body.append(text)
        elif act == "viabox" and boxed[0] is not None and boxed[0].kind == "list":
            text = mutate_list("B.v", boxed[0])
            if text:
                body.append(text)
        elif act == "mut" and o.kind == "map":
            x = r.randint(0, 5)
            body.append("%s[%d] = %d;" % (a, x, x))
            o.items[x] = x
        elif act == "mut" and o.kind == "subinst":
            x = r.randint(10, 99)
            how = r.choice(["name", "method", "extra"])
            if how == "name":
                body.append("%s.v = %d;" % (a, x))
                o.items[0] = x
            elif how == "method":
                body.append("%s.put(%d);" % (a, x))
                o.items[0] = x
            else:
                body.append("%s.extra = %d;" % (a, x))
                o.items[1] = x
        elif act == "mut" and o.kind == "inst":
            x = r.randint(10, 99)
            body.append("%s.v = %d;" % (a, x))
            o.items[0] = x
        elif act == "fmut" and observers:
            k, target = r.choice(observers)
            if target.kind == "list":
                x = r.randint(10, 99)
                body.append("ask%d <- ['push', %d]; <- answer%d;" % (k, x, k))
                target.items.append(x)
                if len(target.items) > target.cap:
                    if not target.grown:
                        stats["grown"] += 1
                    target.grown = True
                    target.epoch += 1
                    target.tainted = True
                    while target.cap < len(target.items):
                        target.cap = max(target.cap * 2, 1)
            else:
                x = r.randint(10, 99)
                body.append("ask%d <- ['set', %d]; <- answer%d;" % (k, x, k))
                target.items[0] = x
        elif act == "fobs" and observers:
            k, target = r.choice(observers)
            which = r.choice(["len", "same", "same"])
            if which == "len":
                # content visibility through the other fiber's alias: always checked
                body.append("ask%d <- ['len', nil]; print(<- answer%d);" % (k, k))
                expect.append(str(len(target.items)) if target.kind == "list" else str(target.items[0]))
                stats["observations"] += 1
            else:
                if (target.grown or o.grown) and not allow_exempt:
                    stats["exempted"] += 1
                else:
                    body.append("ask%d <- ['same', %s]; print(<- answer%d);" % (k, a, k))
                    expect.append("true" if target is o else "false")
                    stats["observations"] += 1
        elif act == "eq":
            b = r.choice(names)
            observe("%s == %s" % (a, b), "true" if variables[b] is o else "false", [o, variables[b]], stack_only=True)
        elif act == "hhas" and holder:
            in_holder = [("H%d" % i, held) for i, held in enumerate(holder)]
            observe("H.has(%s)" % a, "true" if o in holder else "false", [o] + holder, stored=in_holder)
            if o in holder:
                observe("H.index(%s)" % a, str(holder.index(o)), [o] + holder, stored=in_holder)
        elif act == "mhas":
            as_keys = [("M", key) for key in map_keys]
            observe("M.has(%s)" % a, "true" if o in map_keys else "false", [o] + map_keys, stored=as_keys)
            if o in map_keys:
                observe("M[%s]" % a, str(o.id), [o] + map_keys, stored=as_keys)
        elif act == "boxeq":
            if boxed[0] is not None:
                observe("B.v == %s" % a, "true" if boxed[0] is o else "false", [o, boxed[0]], stored=[("B", boxed[0])])
            if captured[0] is not None:
                observe("getter() == %s" % a, "true" if captured[0] is o else "false", [o, captured[0]], stored=[("cap", captured[0])])
            if in_tuple[0] is not None:
                observe("T.has(%s)" % a, "true" if in_tuple[0] is o else "false", [o, in_tuple[0]], stored=[("T", in_tuple[0])])
        elif act == "len":
            if o.kind == "list":
                body.append("print(%s.len(), %s);" % (a, a))
                expect.append("%d [%s]" % (len(o.items), ", ".join(str(x) for x in o.items)))
            elif o.kind == "subinst":
                body.append("print(%s.v, %s.get(), %s.extra, %s.both());" % (a, a, a, a))
                expect.append("%d %d %d %d" % (o.items[0], o.items[0], o.items[1], o.items[0] + o.items[1]))
            elif o.kind == "inst":
                body.append("print(%s.v);" % a)
                expect.append(str(o.items[0]))
            elif o.kind == "closure":
                body.append("print(%s());" % a)
                expect.append(str(o.items[0]))
            else:
                body.append("print(%s.len());" % a)
                expect.append(str(len(o.items)))
            stats["observations"] += 1
    for i, target in enumerate(holder):
        if target.kind == "list":
            body.append("print(H[%d].len());" % i)
            expect.append(str(len(target.items)))
    if boxed[0] is not None and boxed[0].kind == "list":
        body.append("print(B.v.len());")
        expect.append(str(len(boxed[0].items)))
    if captured[0] is not None and captured[0].kind == "list":
        body.append("print(getter().len());")
        expect.append(str(len(captured[0].items)))
    if in_tuple[0] is not None and in_tuple[0].kind == "list":
        body.append("print(T[0].len());")
        expect.append(str(len(in_tuple[0].items)))
    header = [
        "class Box { init(v) { self.v = v; } get() { self.v } put(x) { self.v = x; } }",
        "class SubBox : Box { init(v) { super.init(v); self.v = v; self.extra = 7; } both() { self.v + self.extra } }",
        "fn mkgetter(x) { || x }",
        "fn grow(l, v) { l.push(v); l }",
        "fn mkconst(v) { || v }",
        "fn observer(x, ask, answer) { let q = <- ask; while q != nil { if q[0] == 'len' { if x.cls() == Box { answer <- x.v; } else { answer <- x.len(); } } if q[0] == 'same' { answer <- (x == q[1]); } if q[0] == 'push' { x.push(q[1]); answer <- true; } if q[0] == 'set' { x.v = q[1]; answer <- true; } q = <- ask; } }",
    ]
    if in_fn:
        lines = header + ["fn run() {"] + ["  " + text for text in body] + ["}", "run();"]
    else:
        lines = header + body
    return "\n".join(lines) + "\n", expect, stats


class C10(Check):
    prop = "C10"
    level = "exploration"
    technique = "deterministic simulation: mutation histories through aliases in many storage classes and in other fibers, under seeded GC schedules; reference heap with immutable identities as oracle"
    rule = ("a case is (generated mutation/observation history, in a function or at module level, collection schedule, address policy); "
            "objects: lists with initial lengths around the growth capacities, maps, instances; aliases in locals, module variables, "
            "instance fields, nested list elements, map keys, tuple elements, closure captures, channel buffers and parameters of other "
            "fibers; mutations push/insert/pop/remove/index-assign/clear/map-set/field-write through any alias or by the other fiber; "
            "distinct = distinct (program text, fired schedule); non-trivial = at least one list grew past its capacity or one "
            "observation went through another fiber")
    assumptions = [
        "reference heap: objects have immutable ids, aliases are ids; the model's list capacity rule (max(initial length, 4), doubling) only decides which observations are exempt",
        "exempt by construction (pinned known finding C10-forwarded-list-identity): identity observations on a grown list with at least one side read from a non-stack location",
    ]

    def runs(self, tier):
        return 20000 if tier == "quick" else 2000000

    def make(self, ctx, index):
        rng = core.rng_for(ctx.seed, "c10", index)
        in_fn = rng.random() < 0.5
        source, expect, stats = generate(rng, in_fn)
        gc = schedules.never() if rng.random() < 0.4 else schedules.random_schedule(rng, self.startup, self.startup + 600)
        return {"source": source, "expect": expect, "stats": stats, "in_fn": in_fn, "gc": gc,
                "arena": schedules.random_policy(rng, 0.4)}

    def judge(self, ctx, case):
        outcome = {"jobs": 1, "violations": [], "signatures": [], "counters": {}}
        counters = outcome["counters"]
        job = {"id": "alias", "main": workloads.MAIN, "files": {workloads.MAIN: case["source"]}, "gc": case["gc"],
               "arena": case["arena"]}
        result = ctx.run(job)
        problems = []
        failure = core.host_failure(result)
        got = result["stdout"].splitlines()
        if failure:
            problems.append(("alias history ended in a host failure", failure))
        elif result["vmexit"] != "ok":
            problems.append(("alias history ended in an error", result["stderr"][-400:]))
        elif got != case["expect"]:
            for number in range(max(len(got), len(case["expect"]))):
                a = got[number] if number < len(got) else None
                b = case["expect"][number] if number < len(case["expect"]) else None
                if a != b:
                    if b in ("true", "false") and a in ("true", "false"):
                        clause = "an identity observation disagrees with the reference heap"
                    else:
                        clause = "a mutation is not visible through an alias"
                    problems.append((clause, "observation %d printed %r, the reference heap says %r" % (number, a, b)))
                    break
        for problem in core.memory_failure(result):
            if "layout_mismatch" not in problem:
                problems.append(("memory monitor in an alias history", problem))
        stats = case["stats"]
        counters["observations"] = stats["observations"]
        counters["observations_exempted_by_known_finding"] = stats["exempted"]
        counters["lists_grown_past_capacity"] = stats["grown"]
        counters["probe_list_forwarded"] = result["probes"].get("list_forwarded", 0)
        counters["probe_scan_roots"] = result["probes"].get("scan_roots", 0)
        counters["context_switches"] = result["probes"].get("context_switch", 0)
        counters["collections_fired"] = result["fired_total"]
        counters["vm_instructions"] = result["steps"]
        if stats["grown"] > 0 or result["probes"].get("context_switch", 0) > 0:
            outcome["signatures"].append("%x|%s" % (core.mix(case["source"]) & 0xFFFFFFFFFFFF, schedules.hash_points(result["fired"])))
        for clause, detail in problems:
            explicit = copy.deepcopy(case)
            if result["fired"] and case["gc"]["kind"] not in ("never", "native"):
                explicit["gc"] = {"kind": "list", "points": result["fired"]}
            outcome["violations"].append({"clause": clause, "detail": detail + "\n" + case["source"][:3000],
                                          "case": copy.deepcopy(case), "explicit": explicit})
        outcome["sample"] = {"program_head": case["source"][-700:], "in_function": case["in_fn"], "observations": stats["observations"],
                             "exempted": stats["exempted"], "schedule": case["gc"]["kind"]}
        return outcome


def factory():
    return C10()
