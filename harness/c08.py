from . import c07


class C08(c07.NetCheck):
    prop = "C08"
    own = "progress"
    # lost wake-ups need rarer scheduler states than channel-order violations: more networks per quick run
    quick_runs = 16000
    technique = "deterministic simulation: generated fiber/channel networks on the real scheduler, outcome compared with the outcome set of an exhaustively explored ideal process-network model, bounded liveness in VM steps"
    rule = ("same networks as C07; the oracle is the set of outcomes {complete, deadlock} the ideal model (bounded FIFOs, blocking "
            "operations, any schedule; exhaustive memoised search of the model, cap 200000 states) allows, plus: never a hang or spin "
            "(step budget 20000 + 10000 per operation), never a host failure, launch passes its arguments/captures, a joined program "
            "completes with every fiber's effects, nothing runs after the main fiber ends; distinct = distinct recorded interleavings; "
            "non-trivial = at least one context switch")
    assumptions = [
        "the fiber scheduler is the system under test and is not perturbed: interleavings are those the shipped run queue produces for the generated network",
        "when the ideal model allows both completion and deadlock either is accepted",
        "verdict zone: a channel is closed only by a fiber that has itself used it before the close (sends of other fibers into it are guarded); no channel operations inside native callbacks",
    ]


def factory():
    return C08()
