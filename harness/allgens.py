"""Registers the workload generators of the property specific checks with `workloads`, so that the
schedule differential (C05) and the configuration differential (C14) run them as well."""
from . import c09, c13, nets, workloads

_done = []


def _classes(rng):
    program, _ = c13.generate(rng)
    return program


def _strings(rng):
    program, _ = c09.generate(rng)
    return program


def _nets(rng):
    for _ in range(20):
        ir = nets.generate(rng)
        allowed = nets.explore(ir, 20000)
        # only networks that complete under every ideal schedule have one meaning to compare
        if allowed == {"complete"} and nets.determinate(ir):
            return nets.program(ir)
    return workloads.fibers(rng)


def register_all():
    if _done:
        return
    _done.append(True)
    workloads.register("classes", _classes, 3)
    workloads.register("strings", _strings, 3)
    workloads.register("nets", _nets, 2)
