"""Registers the workload generators of the property specific checks with `workloads`, so that the
schedule differential (C05) and the configuration differential (C14) run them as well."""
from . import c04, c09, c10, c13, c17, c19, nets, workloads

_done = []


def _classes(rng):
    program, _ = c13.generate(rng)
    return program


def _strings(rng):
    program, _ = c09.generate(rng)
    return program


def _nets(rng):
    for _ in range(20):
        ir = nets.generate(rng)
        allowed = nets.explore(ir, 20000)
        # only networks that complete under every ideal schedule have one meaning to compare
        if allowed == {"complete"} and nets.determinate(ir):
            return nets.program(ir)
    return workloads.fibers(rng)


def _frames(rng):
    """An exception-frame program of C04 with one injected fault (or none)."""
    funs = c04.generate(rng)
    _, dynamic = c04.model(funs, 0, "Error")
    target = rng.randint(0, min(dynamic, 40))
    kind = rng.choice([k for k in c04.KINDS if k != "IoError"])
    return {"name": "frames", "main": workloads.MAIN,
            "files": {workloads.MAIN: c04.render(funs, target, kind), c04.DATA: "data"}}


def _aliases(rng):
    source, _, _ = c10.generate(rng, rng.random() < 0.5)
    return {"name": "aliases", "main": workloads.MAIN, "files": {workloads.MAIN: source}}


def _modules(rng):
    for _ in range(10):
        files, _, fail, faults, _ = c17.generate(rng)
        if not faults:
            return {"name": "modules", "main": workloads.MAIN, "files": files}
    return workloads.churn(rng)


def _session(rng):
    entries, files = c19.generate(rng)
    files = dict(files)
    # (not executed in repl mode; kept so that samples and signatures have a text to show)
    files[workloads.MAIN] = "\n".join(entry[0] for entry in entries) + "\n"
    return {"name": "session", "main": workloads.MAIN, "files": files, "mode": "repl",
            "stdin": [entry[0] + "\n" for entry in entries]}


def register_all():
    if _done:
        return
    _done.append(True)
    workloads.register("classes", _classes, 3)
    workloads.register("strings", _strings, 3)
    workloads.register("nets", _nets, 2)
    workloads.register("frames", _frames, 3)
    workloads.register("aliases", _aliases, 2)
    workloads.register("modules", _modules, 2)
    workloads.register("session", _session, 2)
