"""The repository's own fixture programs as simulation workloads (loaded into the simulated file system)."""
import os
import re

from . import core

FIXTURE = os.path.join(core.REPO, "laythe_vm", "fixture")
TESTS = os.path.join(core.REPO, "laythe_vm", "tests")
SIM_ROOT = "/sim/fixture"

# Fixtures whose behaviour depends on sources of nondeterminism that are deliberately not simulated
# (real randomness) or on the real process environment. Everything else runs.
EXCLUDE_SUBSTRINGS = [
    "std_lib/math/utils/rand",   # thread_rng, no seam
    "std_lib/env/",              # real process environment (cwd/args of the test runner)
    "benchmark/",                # long running, not referenced by the pinned suite
]

# standard input the pinned suite feeds to the two stdin fixtures
STDIN = {
    "std_lib/io/stdio/stdin/read.lay": ["expected"],
    "std_lib/io/stdio/stdin/readline.lay": ["expected 1", "expected 2"],
}

_TOKEN = re.compile(r'"([^"\n]+\.lay)"|VmExit::(Ok|RuntimeError|CompileError)')
_EXIT = {"Ok": "ok", "RuntimeError": "runtime", "CompileError": "compile"}


def expected_exits():
    """fixture relative path -> exit class the pinned suite registers for it"""
    expected = {}
    for name in sorted(os.listdir(TESTS)):
        if not name.endswith(".rs"):
            continue
        with open(os.path.join(TESTS, name)) as handle:
            text = handle.read()
        pending = []
        for match in _TOKEN.finditer(text):
            if match.group(1):
                pending.append(match.group(1))
            else:
                for path in pending:
                    expected.setdefault(path, _EXIT[match.group(2)])
                pending = []
    return expected


def load():
    """list of programs: {name, main, files, expected}"""
    expected = expected_exits()
    programs = []
    for relative in sorted(expected):
        if any(part in relative for part in EXCLUDE_SUBSTRINGS):
            continue
        full = os.path.join(FIXTURE, relative)
        if not os.path.exists(full):
            continue
        directory = os.path.dirname(full)
        files = {}
        for root, _, names in os.walk(directory):
            for name in sorted(names):
                path = os.path.join(root, name)
                if name.endswith(".lay") or (name.endswith(".txt") and os.path.getsize(path) < 65536):
                    try:
                        with open(path, encoding="utf-8") as handle:
                            text = handle.read()
                    except UnicodeDecodeError:
                        continue
                    files[SIM_ROOT + "/" + os.path.relpath(path, FIXTURE)] = text
        main = SIM_ROOT + "/" + relative
        if main not in files:
            continue
        programs.append({"name": relative, "main": main, "files": files, "expected": expected[relative],
                         "stdin": STDIN.get(relative, []), "heavy": len(files[main]) > 100000})
    return programs
