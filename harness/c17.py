"""C17 - modules run once and expose exactly their exports.

Why simulation: import is where the runtime performs io on its own (Fs::read_file), suspends the importing
fiber, runs the module body on a new fiber and re-executes the import instruction afterwards, while user
fibers launched earlier keep running. Dimensions: the simulated file system (module graph as files, read
faults per path), fibers alive across imports, collection schedule, address policy.
Oracle: a module-graph model (first-import depth-first order, each body exactly once and before the importer's
next statement, exported values visible under every import form, private state reachable only through
exports, failures -> ImportError / error before any later statement of the importer).
"""
import collections
import copy

from . import core, schedules, workloads
from .runner import Check


def generate(r):
    """Returns (files, expected stdout lines, failure kind or None, info)"""
    k = r.randint(1, 6)
    mods = []
    for i in range(k):
        if i > 0 and r.random() < 0.3:
            parent = r.choice([m for m in mods if m.count(".") < 2] or [None])
            if parent:
                # leaf names are sometimes shared between packages (pkg1.util, pkg2.util are different modules)
                leaf = r.choice(["n%d" % i, "util", "core"])
                if "%s.%s" % (parent, leaf) in mods:
                    leaf = "n%d" % i
                mods.append("%s.%s" % (parent, leaf))
                continue
        mods.append("m%d" % i)
    ident = {m: m.replace(".", "_") for m in mods}
    local = {m: m.split(".")[-1] for m in mods}
    deps = {m: [d for d in mods[:i] if r.random() < 0.4 and not m.startswith(d + ".")] for i, m in enumerate(mods)}
    fibers_in_modules = r.random() < 0.45
    objnames = {m: r.choice(["str", "equals", "cls", "plain"]) for m in mods}
    # (7 exports are always there)
    wide = {m: r.choice([249, 248]) for m in mods if r.random() < 0.04}
    files = {}
    bindings = {}
    for i, m in enumerate(mods):
        lines = []
        sym = {}
        for d in deps[m]:
            if r.random() < 0.5:
                lines.append("import self.%s:{bump_%s as b_%s};" % (d, ident[d], ident[d]))
                sym[d] = True
            else:
                lines.append("import self.%s as I_%s;" % (d, ident[d]))
                sym[d] = False
        bindings[m] = sym
        lines.append("print('#run %s');" % m)
        lines.append("let hidden_%s = 0;" % ident[m])
        lines.append("let priv_%s = %d;" % (ident[m], i + 40))
        lines.append("export fn bump_%s() { hidden_%s += 1; hidden_%s }" % (ident[m], ident[m], ident[m]))
        lines.append("export let val_%s = %d;" % (ident[m], i + 10))
        lines.append("export class K_%s { init() { self.tag = ['%s']; } id() { %d } }" % (ident[m], m, i + 20))
        # an exported variable that the module itself reassigns later, and an export whose value is nil
        lines.append("export let pub_%s = 0;" % ident[m])
        lines.append("export fn incpub_%s() { pub_%s = pub_%s + 1; pub_%s }" % ((ident[m],) * 4))
        lines.append("export let none_%s = nil;" % ident[m])
        # an export that carries the name of a method every object has (the module object is an object too)
        lines.append("export fn %s(v) { '%s/' + v }" % (objnames[m], m))
        # a module object with exactly as many fields as an instance may have (and one fewer)
        for filler in range(wide.get(m, 0)):
            lines.append("export let x%d_%s = %d;" % (filler, ident[m], filler))
        if fibers_in_modules and r.random() < 0.5:
            # (a synchronous channel parks the module's fiber in the blocked state, a buffered one puts it to sleep)
            form = r.choice(["one", "one", "race", "closer"])
            if form == "one":
                lines.append("let mc_%s = chan(%s); fn mw_%s(c) { c <- %d; } launch mw_%s(mc_%s); print('%s fiber', <- mc_%s);" % (
                    ident[m], r.choice(["", "1"]), ident[m], i + 70, ident[m], ident[m], m, ident[m]))
            elif form == "race":
                # the first answer wins: the second sender is still parked on the channel when the module body ends
                lines.append("let mc_%s = chan(); fn mw_%s(c, v) { c <- v; } launch mw_%s(mc_%s, %d); launch mw_%s(mc_%s, -1); print('%s fiber', <- mc_%s);" % (
                    ident[m], ident[m], ident[m], ident[m], i + 70, ident[m], ident[m], m, ident[m]))
            else:
                # a worker of the module is parked on a channel that the module closes as one of its last actions
                lines.append("let mc_%s = chan(%s); fn mw_%s(c) { let v = <- c; while v != nil { v = <- c; } } launch mw_%s(mc_%s); "
                             "mc_%s <- 1; print('%s fiber', %d); mc_%s.close();" % (
                                 ident[m], r.choice(["", "1"]), ident[m], ident[m], ident[m], ident[m], m, i + 70, ident[m]))
        for d in deps[m]:
            call = ("b_%s()" % ident[d]) if sym[d] else ("I_%s.bump_%s()" % (ident[d], ident[d]))
            lines.append("print('%s sees', %s);" % (m, call))
        files["/sim/%s.lay" % m.replace(".", "/")] = "\n".join(lines) + "\n"

    faults = []
    broken = None
    if r.random() < 0.2:
        broken = r.choice(mods)
        faults.append({"path": "/sim/%s.lay" % broken.replace(".", "/"), "op": "read",
                       "kind": r.choice(["not_found", "permission_denied", "invalid_utf8"])})

    with_fiber = r.random() < 0.6
    main = ["print('#main');"]
    expect = ["#main"]
    if with_fiber:
        # the ticker first rendezvouses `pace` times with a pacer fiber, so it completes at a seeded point relative to the
        # module bodies that run (and possibly block) during the imports
        pace = r.randint(0, 6)
        main += ["let tick = chan(3);", "let pace = chan();",
                 "fn pacer(p) { let v = <- p; while v != nil { v = <- p; } }",
                 "fn ticker(ch, p, k) { for i in k.times() { p <- i; } p.close(); for i in 3.times() { ch <- i; } }",
                 "launch pacer(pace);", "launch ticker(tick, pace, %d);" % pace]
    ran = []
    counters = collections.Counter()
    published = collections.Counter()     # current value of pub_<module>
    fiber_lines = {}
    for m in mods:
        fiber_lines[m] = any("fiber" in line and "print('%s fiber'" % m in line for line in files["/sim/%s.lay" % m.replace(".", "/")].splitlines())

    class Failed(Exception):
        pass

    def run_mod(m):
        if m in ran:
            return
        if "." in m:
            run_mod(m.rsplit(".", 1)[0])
        if m == broken:
            raise Failed()
        # the module's own imports run first (they are its first statements)
        ran.append(m)
        for d in deps[m]:
            run_mod(d)
        expect.append("#run %s" % m)
        if fiber_lines[m]:
            expect.append("%s fiber %d" % (m, mods.index(m) + 70))
        for d in deps[m]:
            counters[d] += 1
            expect.append("%s sees %d" % (m, counters[d]))

    fail = None
    used_aliases = set()
    try:
        for j in range(r.randint(1, 7)):
            m = r.choice(mods)
            form = r.choice(["mod", "as", "sym", "symas"])
            if r.random() < 0.12:
                form = r.choice(["missing", "notexp", "privprop"])
            if form in ("mod", "as"):
                alias = local[m] if form == "mod" else "A%d" % j
                if alias in used_aliases:
                    continue
                used_aliases.add(alias)
                main.append("import self.%s;" % m if form == "mod" else "import self.%s as %s;" % (m, alias))
                run_mod(m)
                main.append("print(%s.val_%s, %s.bump_%s(), %s.K_%s().id(), %s.K_%s().tag);" % (
                    alias, ident[m], alias, ident[m], alias, ident[m], alias, ident[m]))
                counters[m] += 1
                expect.append("%d %d %d ['%s']" % (mods.index(m) + 10, counters[m], mods.index(m) + 20, m))
                if r.random() < 0.5:
                    main.append("print(%s.%s('a%d'));" % (alias, objnames[m], j))
                    expect.append("%s/a%d" % (m, j))
                if m in wide and r.random() < 0.8:
                    main.append("print(%s.x0_%s + %s.x%d_%s);" % (alias, ident[m], alias, wide[m] - 1, ident[m]))
                    expect.append(str(wide[m] - 1))
                if r.random() < 0.6:
                    # every import statement yields its own module object holding the exported values of that moment:
                    # later reassignments inside the module and writes of other importers do not show through it
                    snapshot = published[m]
                    bumps = r.randint(0, 2)
                    main.append("print(%s.pub_%s%s, %s.pub_%s, %s.none_%s);" % (
                        alias, ident[m], "".join(", %s.incpub_%s()" % (alias, ident[m]) for _ in range(bumps)), alias, ident[m],
                        alias, ident[m]))
                    line = [str(snapshot)]
                    for _ in range(bumps):
                        published[m] += 1
                        line.append(str(published[m]))
                    line += [str(snapshot), "nil"]
                    expect.append(" ".join(line))
                    if r.random() < 0.4:
                        main.append("%s.pub_%s = %d; print(%s.pub_%s);" % (alias, ident[m], 900 + j, alias, ident[m]))
                        expect.append(str(900 + j))
            elif form in ("sym", "symas"):
                main.append("import self.%s:{val_%s as v%d, bump_%s as b%d, K_%s as K%d, pub_%s as pubv%d, none_%s as nonev%d};" % (
                    m, ident[m], j, ident[m], j, ident[m], j, ident[m], j, ident[m], j))
                run_mod(m)
                main.append("print(v%d, b%d(), K%d().id(), pubv%d, nonev%d);" % (j, j, j, j, j))
                counters[m] += 1
                expect.append("%d %d %d %d nil" % (mods.index(m) + 10, counters[m], mods.index(m) + 20, published[m]))
            elif form == "missing":
                main.append("import self.nope%d;" % j)
                fail = "ImportError"
                break
            elif form == "notexp":
                main.append("import self.%s:{priv_%s as p%d};" % (m, ident[m], j))
                run_mod(m)
                fail = "ImportError"
                break
            else:
                alias = "P%d" % j
                main.append("import self.%s as %s;" % (m, alias))
                run_mod(m)
                main.append("print(%s.priv_%s);" % (alias, ident[m]))
                fail = "AnyError"
                break
    except Failed:
        fail = "ImportError"
    if with_fiber:
        main.append("print('#tick', <- tick, <- tick, <- tick);")
    main.append("print('#end');")
    if not fail:
        if with_fiber:
            expect.append("#tick 0 1 2")
        expect.append("#end")
    files[workloads.MAIN] = "\n".join(main) + "\n"
    info = {"modules": mods, "with_fiber": with_fiber, "broken": broken, "fibers_in_modules": fibers_in_modules}
    return files, expect, fail, faults, info


class C17(Check):
    prop = "C17"
    level = "exploration"
    technique = "deterministic simulation: generated module graphs in a simulated file system with read faults, user fibers alive across imports, seeded GC schedules; module-graph model as oracle"
    rule = ("a case is (generated acyclic module graph of 1..6 files incl. nested packages, import script of the main module, optional "
            "fs read fault on one module file, optional user fiber alive across the imports, optional fibers inside module bodies, "
            "collection schedule, address policy); import forms: whole module, renamed, selected symbols with renames, repeated and "
            "transitive imports; failures: missing module, unreadable / non-UTF-8 file, selected symbol not exported, private name "
            "through a whole-module import; distinct = distinct (graph+script text, faults, fired schedule); non-trivial = at least "
            "one module body was compiled and run by an import")
    assumptions = [
        "a parent package file is imported (and its body run) before a nested module, as the shipped loader does; the generator always provides it",
        "imports are only legal at module scope, so an import failure cannot be caught and must end the program with a failing status",
        "the model: first-import depth-first order, bodies exactly once, a private counter per module observable only through its exported function",
    ]

    def runs(self, tier):
        return 15000 if tier == "quick" else 1500000

    def make(self, ctx, index):
        rng = core.rng_for(ctx.seed, "c17", index)
        files, expect, fail, faults, info = generate(rng)
        gc = schedules.never() if rng.random() < 0.35 else schedules.random_schedule(rng, self.startup, self.startup + 800)
        return {"files": files, "expect": expect, "fail": fail, "faults": faults, "info": info, "gc": gc,
                "arena": schedules.random_policy(rng, 0.4)}

    def judge(self, ctx, case):
        outcome = {"jobs": 1, "violations": [], "signatures": [], "counters": {}}
        counters = outcome["counters"]
        job = {"id": "modules", "main": workloads.MAIN, "files": case["files"], "gc": case["gc"], "arena": case["arena"],
               "fs_faults": case["faults"]}
        result = ctx.run(job)
        problems = []
        failure = core.host_failure(result)
        got = result["stdout"].splitlines()
        if failure:
            problems.append(("module import ended in a host failure", failure))
        else:
            if got != case["expect"]:
                for number in range(max(len(got), len(case["expect"]))):
                    a = got[number] if number < len(got) else None
                    b = case["expect"][number] if number < len(case["expect"]) else None
                    if a != b:
                        if b is not None and b.startswith("#run") and a is not None and not a.startswith("#run") and b in got:
                            clause = "a module body did not run before its importer continued"
                        elif a is not None and a.startswith("#run") and got.count(a) > 1:
                            clause = "a module body ran more than once"
                        elif a is None and case["fail"] is None:
                            clause = "the program stopped although every import is satisfiable"
                        elif b is None:
                            clause = "statements ran after a failed import"
                        else:
                            clause = "an imported name does not carry the exported value"
                        problems.append((clause, "line %d is %r, the module-graph model says %r; stderr %r" % (
                            number, a, b, result["stderr"][-300:])))
                        break
            if case["fail"] is None and (result["vmexit"] != "ok" or result["exit"] != 0):
                problems.append(("the program stopped although every import is satisfiable", "%s %s: %s" % (
                    result["vmexit"], result["exit"], result["stderr"][-300:])))
            if case["fail"] == "ImportError" and (result["vmexit"] != "runtime" or "ImportError" not in result["stderr"]):
                problems.append(("a failing import did not end the program with an import error", "%s: %r" % (
                    result["vmexit"], result["stderr"][-300:])))
            if case["fail"] == "AnyError" and result["vmexit"] != "runtime":
                problems.append(("a private name was readable through a module import", "%s: %r" % (result["vmexit"], result["stdout"][-200:])))
        for problem in core.memory_failure(result):
            if "layout_mismatch" not in problem:
                problems.append(("memory monitor during imports", problem))
        compiled = result["probes"].get("import_compiled", 0)
        counters["modules_compiled_by_import"] = compiled
        counters["imports_of_loaded_modules"] = result["probes"].get("import_loaded", 0)
        counters["import_wakes_refused"] = result["probes"].get("import_wake_refused", 0)
        counters["fs_faults_fired"] = len(result["fs_fired"])
        counters["fs_reads"] = len(result["fs_log"])
        counters["collections_fired"] = result["fired_total"]
        counters["cases_with_user_fiber_across_imports"] = 1 if case["info"]["with_fiber"] else 0
        counters["cases_expecting_" + str(case["fail"])] = 1
        counters["vm_instructions"] = result["steps"]
        if compiled > 0:
            outcome["signatures"].append("%x|%s" % (core.mix(repr(sorted(case["files"].items())), repr(case["faults"])) & 0xFFFFFFFFFFFF,
                                                      schedules.hash_points(result["fired"])))
        seen = set()
        for clause, detail in problems:
            if clause in seen:
                continue
            seen.add(clause)
            explicit = copy.deepcopy(case)
            if result["fired"] and case["gc"]["kind"] not in ("never", "native"):
                explicit["gc"] = {"kind": "list", "points": result["fired"]}
            text = "\n".join("--- %s\n%s" % (path, source) for path, source in sorted(case["files"].items()))
            outcome["violations"].append({"clause": clause, "detail": detail + "\n" + text[:2500], "case": copy.deepcopy(case),
                                          "explicit": explicit})
        outcome["sample"] = {"modules": case["info"]["modules"], "main": case["files"][workloads.MAIN][:400], "faults": case["faults"],
                             "expected_failure": case["fail"], "schedule": case["gc"]["kind"]}
        return outcome


def factory():
    return C17()
