"""Generators of collection schedules and memory policies (the `gc` and `arena` parts of a job)."""

NURSERY, FULL, FULL_TWICE = 1, 2, 3


def never():
    return {"kind": "never"}


def native(threshold=None):
    gc = {"kind": "native"}
    if threshold is not None:
        gc["threshold"] = threshold
    return gc


def single(index, mode):
    return {"kind": "list", "points": [[index, mode]]}


def points(pairs):
    return {"kind": "list", "points": [list(pair) for pair in sorted(pairs)]}


def every(mode="full", start=0, period=1):
    return {"kind": "every", "mode": mode, "from": start, "period": period}


def bernoulli(rng, start=0):
    p_den = rng.choice([2, 8, 64, 512])
    q = rng.choice([(0, 1), (1, 10), (1, 2), (1, 1)])
    return {"kind": "bernoulli", "mode": "seeded", "from": start, "p_num": 1, "p_den": p_den,
            "q_num": q[0], "q_den": q[1], "seed": rng.getrandbits(48) | 1}


def burst(rng, start, end):
    span = max(1, end - start)
    windows = []
    for _ in range(rng.randint(1, 4)):
        a = start + rng.randrange(span)
        windows.append([a, a + rng.randint(5, 200)])
    return {"kind": "burst", "mode": rng.choice(["full", "mixed", "nursery", "seeded"]), "windows": sorted(windows),
            "q_num": 1, "q_den": 3, "seed": rng.getrandbits(48) | 1}


def random_schedule(rng, start, end, heavy=False):
    """Swarm style: one schedule family per run. `heavy` programs (tens of thousands of allocations) only get
    sparse schedules: a collection costs time proportional to the heap, a collection at every allocation of such
    a program is quadratic."""
    family = rng.choice(["every_full", "every_mixed", "every_nursery", "bernoulli", "bernoulli", "bernoulli",
                         "burst", "burst", "periodic", "threshold"])
    if heavy:
        family = rng.choice(["burst", "threshold", "sparse"])
        if family == "sparse":
            return every(rng.choice(["full", "mixed", "seeded"]), start + rng.randrange(97), rng.choice([997, 1999, 4001]))
    if family == "every_full":
        return every("full", start)
    if family == "every_mixed":
        return every("mixed", start)
    if family == "every_nursery":
        return every("nursery", start)
    if family == "bernoulli":
        return bernoulli(rng, start)
    if family == "burst":
        return burst(rng, start, end)
    if family == "periodic":
        return every(rng.choice(["full", "mixed", "seeded"]), start + rng.randrange(7), rng.choice([2, 3, 5, 7, 13, 31]))
    return native(rng.choice([1 << 10, 1 << 14, 1 << 16, 1 << 18]))


def random_policy(rng, reuse_weight=0.4):
    roll = rng.random()
    if roll >= reuse_weight:
        return {"policy": "quarantine"}
    if roll < reuse_weight / 2:
        return {"policy": "eager"}
    return {"policy": "seeded", "seed": rng.getrandbits(48) | 1}


def fired_signature(result):
    """A compact identity of the schedule that actually fired."""
    fired = result.get("fired") or []
    if not fired:
        return None
    head = ",".join("%d%s" % (index, "nf"[mode - 1] if mode in (1, 2) else "?") for index, mode in fired[:24])
    return "%d:%s:%s" % (result.get("fired_total", len(fired)), head, hash_points(fired))


def hash_points(fired):
    value = 1469598103934665603
    for index, mode in fired:
        value ^= index * 4 + mode
        value = (value * 1099511628211) & 0xFFFFFFFFFFFFFFFF
    return "%016x" % value
