"""C04 - exceptions transfer control to the right handler and preserve program state.

From the frame's point of view an error is a cancellation that may arrive at any call. The simulator owns
*when* and *how* it arrives: every call boundary of a generated program goes through a fault point, and for
every program every dynamic fault point is enumerated with several fault kinds - an in-language raise of a
base or user error class, runtime errors of the interpreter (IndexError, RuntimeError, PropertyError, stack overflow by
unbounded recursion) and a
native error produced by an injected file system fault (the n-th read of the simulated fs fails; there is no
in-language condition at all in that kind). Collection schedule and address policy vary independently.
Oracle: an executable model of the generated IR (a few lines of python: environments are dicts, try/catch is
python try/except with the class filter) - control resumes in the innermost dynamically enclosing matching
catch, every variable in scope there has the value of its last assignment, variables declared after the try
work, handlers of left try blocks are never entered.
"""
import copy

from . import core, schedules, workloads
from .runner import Check

KINDS = ["Error", "MyErr", "IndexError", "RuntimeError", "PropertyError", "IoError", "StackOverflow", "OperandError", "Shadow", "Quiet"]
# the class an injected error of each kind has (unbounded recursion is reported as a RuntimeError)
CLASS_OF = {kind: kind for kind in KINDS}
CLASS_OF["StackOverflow"] = "RuntimeError"
# an operator applied to operands of the wrong type (the instruction has already popped its operands when it fails)
CLASS_OF["OperandError"] = "RuntimeError"
# an instance of a second, unrelated class that is also called MyErr (declared inside a function): it prints like
# MyErr, it is an Error, and a clause filtering on the module's MyErr does not take it
CLASS_OF["Shadow"] = "MyErr"
# an Error subclass whose init never calls the inherited one: its message is nil, it is still an Error
CLASS_OF["Quiet"] = "Quiet"
# LateErr is declared at the very end of the file: while the functions run, evaluating it as a catch filter raises
# ('Undefined variable'), and that new error cannot be handled by the clause whose filter it is
FILTERS = ["Error", "Error", "Error", "MyErr", "IndexError", "RuntimeError", "PropertyError", "IoError", "LateErr"]
DATA = "/sim/data.txt"


class Raise(Exception):
    def __init__(self, cls, raised=False, ident=None):
        self.cls = cls
        # what a catch filter compares with (the class itself, not its name)
        self.ident = ident or cls
        # raised by a raise statement of the program (message 'injected') rather than by the runtime
        self.raised = raised


class Ret(Exception):
    def __init__(self, value):
        self.value = value


class Brk(Exception):
    pass


class Cont(Exception):
    pass


# ---------- generator -------------------------------------------------------------------------------

def generate(r):
    nf = r.randint(1, 4)
    params = [r.randint(0, 3) for _ in range(nf)]
    shapes = [r.choice(["fn", "fn", "method", "lambda"]) for _ in range(nf)]
    counter = [0]

    def const():
        counter[0] += 1
        return 1000 + counter[0]

    def clauses(names):
        """[first filter, first handler, further clauses]: a try has one to three catch clauses with distinct filters; the
        first clause whose filter matches handles the error. A handler may hold fault points, prints, a closure over the
        catch variable and a rendezvous with another fiber."""
        filters = r.sample(sorted(set(FILTERS)), r.choice([1, 1, 1, 2, 2, 3]))
        if "Error" in filters:
            # the catch-all goes last, otherwise the later clauses are dead
            filters.remove("Error")
            filters.append("Error")
        out = []
        for _ in filters:
            handler = []
            for _ in range(r.randint(0, 2)):
                what = r.random()
                if what < 0.3:
                    handler.append(["fp"])
                elif what < 0.55:
                    handler.append(["capture_e"])
                elif what < 0.7:
                    handler.append(["sync", const()])
                else:
                    handler.append(["print", "H%d" % const(), list(names)])
            out.append(handler)
        return [filters[0], out[0], [[f, h] for f, h in zip(filters[1:], out[1:])]]

    def block(fi, depth, in_loop, in_try, names, in_cb=False):
        stmts = []
        for _ in range(r.randint(1, 5)):
            kind = r.choice(["let", "fp", "fp", "fp", "call", "try", "try", "loop", "print", "exit", "exit", "cb", "assign",
                             "capture", "cbfor", "while", "exitloop", "exitloop", "sync"])
            if kind == "let":
                name = "v%d_%d" % (len(names), fi)
                names.append(name)
                stmts.append(["let", name, const()])
            elif kind == "assign" and names:
                stmts.append(["assign", r.choice(names), const()])
            elif kind == "capture" and names and depth < 3:
                source = r.choice(names)
                name = "g%d_%d" % (len(names), fi)
                names.append(name)
                stmts.append(["capture", name, source])
            elif kind == "sync" and not in_cb:
                # park this fiber on a rendezvous with the echo fiber (channel operations inside callbacks are excluded)
                stmts.append(["sync", const()])
            elif kind == "fp":
                # mostly through the fp() helper (the error is born one frame up), sometimes inline in this frame
                stmts.append(["fp"] if r.random() < 0.7 else ["fpi"])
            elif kind == "call" and fi + 1 < nf:
                g = r.randint(fi + 1, nf - 1)
                stmts.append(["call", g, [const() for _ in range(params[g])]])
            elif kind == "try" and depth < 3:
                body = block(fi, depth + 1, in_loop, in_try + 1, list(names), in_cb)
                stmts.append(["try", body, list(names)] + clauses(list(names)))
            elif kind == "loop" and depth < 3 and not in_loop:
                stmts.append(["loop", r.randint(1, 3), block(fi, depth + 1, True, in_try, list(names), in_cb)])
            elif kind == "while" and depth < 3 and not in_loop:
                name = "w%d_%d" % (len(names), fi)
                names.append(name)
                stmts.append(["while", name, r.randint(1, 3), block(fi, depth + 1, True, in_try, list(names), in_cb)])
            elif kind == "print":
                stmts.append(["print", "P%d" % const(), list(names)])
            elif kind == "exitloop" and depth < 2 and not in_loop:
                # leave one or two try blocks by break / continue / return, then meet a fault point: the handlers of
                # the blocks that were left must be gone
                how = r.choice(["break", "continue", "ret"] if in_try else ["break", "continue"])
                inner = [r.choice([["fp"], ["fpi"]])] if r.random() < 0.6 else []
                inner.append(["ret", const()] if how == "ret" else [how])
                # locals of the loop body declared before the try are alive in the catch clause (its record lists them,
                # which makes it the deepest expression of the function) but are gone where the try block's exit lands
                scope = list(names)
                declared = []
                if r.random() < 0.5:
                    for _ in range(r.randint(2, 3)):
                        name = "x%d_%d" % (len(scope), fi)
                        scope.append(name)
                        declared.append(["let", name, const()])
                wrapped = ["try", inner, list(scope), r.choice(FILTERS), [], []]
                if r.random() < 0.5:
                    wrapped = ["try", [wrapped], list(scope), r.choice(FILTERS), [], []]
                stmts.append(["loop", r.randint(1, 2), declared + [wrapped]])
                stmts.append(["fp"])
                if how == "ret":
                    break
            elif kind in ("cb", "cbfor") and depth < 3:
                inner = []
                for _ in range(r.randint(1, 3)):
                    what = r.choice(["fp", "print", "call", "try"])
                    if what == "fp":
                        inner.append(["fp"])
                    elif what == "print":
                        inner.append(["print", "P%d" % const(), list(names)])
                    elif what == "call" and fi + 1 < nf:
                        g = r.randint(fi + 1, nf - 1)
                        inner.append(["call", g, [const() for _ in range(params[g])]])
                    elif what == "try" and depth < 2:
                        inner.append(["try", [["fp"]], list(names), r.choice(FILTERS), [], []])
                if kind == "cb":
                    stmts.append(["cb", r.randint(1, 3), inner, r.choice(["each", "map", "filter", "reduce", "sort", "all"])])
                else:
                    stmts.append(["cbfor", r.randint(1, 3), inner])
            elif kind == "exit" and r.random() < 0.5 and not in_cb:
                if in_loop and r.random() < 0.6:
                    stmts.append([r.choice(["break", "continue"])])
                    break
                elif in_try:
                    stmts.append(["ret", const()])
                    break
        return stmts

    funs = []
    for fi in range(nf):
        names = ["p%d_%d" % (j, fi) for j in range(params[fi])]
        funs.append({"params": params[fi], "shape": shapes[fi], "body": block(fi, 0, False, 0, names)})
    # the outermost handler (module level) usually catches everything, sometimes only one class: then an injected error of
    # another class has no matching handler at all and must end the program with a traceback and a failing status
    funs[0]["top_filter"] = r.choice(["Error", "Error", "Error"] + FILTERS)
    # in a quarter of the programs the outermost function is the root of a launched fiber (its stack is sized from that
    # function alone); its result comes back through a channel and nothing outside can catch what escapes it
    if shapes[0] != "method" and r.random() < 0.25:
        funs[0]["root"] = True
    return funs


# ---------- renderer --------------------------------------------------------------------------------

def render(funs, target, kind):
    """target: 1-based dynamic fault point that fails (0 = none); kind: class of the injected error"""
    lines = ["import std.io.fs:{readFile};", "import std.io:{IoError};", "class MyErr : Error {}", "class Host { init() { self.h = 1; } }", "let CNT = 0;",
             "let TARGET = %d;" % (target if kind != "IoError" else 0)]
    action = {
        "Error": "raise Error('injected');",
        "MyErr": "raise MyErr('injected');",
        "IndexError": "[][1];",
        "RuntimeError": "nil();",
        "PropertyError": "[1].nothing();",
        "IoError": "nil;",
        "StackOverflow": "overflow(0);",
        "OperandError": "1 + nil;",
        "Shadow": "raise mkshadow()('injected');",
        "Quiet": "raise Quiet();",
    }[kind]
    lines.append("class Quiet : Error { init() { self.q = 1; } }")
    lines.append("fn mkshadow() { class MyErr : Error {} MyErr }")
    lines.append("fn overflow(n) { overflow(n + 1) }")
    # every fault point performs one read of the simulated file system; in the IoError kind that read is
    # what fails (injected by the simulator), in the other kinds the fault point itself raises
    lines.append("fn fp() { CNT += 1; readFile('%s'); if CNT == TARGET { %s } }" % (DATA, action))
    # an echo fiber: sync(v) parks the calling fiber on a synchronous rendezvous and gets v back
    lines.append("let REQ = chan(); let RSP = chan();")
    lines.append("fn echo() { let v = <- REQ; while v != nil { RSP <- v; v = <- REQ; } }")
    lines.append("launch echo();")
    lines.append("fn sync(v) { REQ <- v; <- RSP }")

    def names_tail(names):
        out = ""
        for name in names:
            out += ", %s()" % name if name.startswith("g") else ", %s" % name
        return out

    root_mode = [False]

    def rb(stmts, ind):
        out = []
        for s in stmts:
            if s[0] == "let":
                out.append("%slet %s = %d;" % (ind, s[1], s[2]))
            elif s[0] == "assign":
                if s[1].startswith("g"):
                    continue
                out.append("%s%s = %d;" % (ind, s[1], s[2]))
            elif s[0] == "capture":
                out.append("%slet %s = || %s;" % (ind, s[1], s[2] + "()" if s[2].startswith("g") else s[2]))
            elif s[0] == "fp":
                out.append("%sfp();" % ind)
            elif s[0] == "fpi":
                out.append("%sCNT += 1; readFile('%s'); if CNT == TARGET { %s }" % (ind, DATA, action))
            elif s[0] == "call":
                out.append("%sprint('R', %s);" % (ind, call_text(s[1], s[2])))
            elif s[0] == "print":
                out.append("%sprint('%s'%s);" % (ind, s[1], names_tail(s[2])))
            elif s[0] == "ret":
                if root_mode[0]:
                    out.append("%sFIN <- %d; return nil;" % (ind, s[1]))
                else:
                    out.append("%sreturn %d;" % (ind, s[1]))
            elif s[0] in ("break", "continue"):
                out.append("%s%s;" % (ind, s[0]))
            elif s[0] == "loop":
                out.append("%sfor i in %d.times() {" % (ind, s[1]))
                out += rb(s[2], ind + "  ")
                out.append("%s}" % ind)
            elif s[0] == "while":
                out.append("%slet %s = 0;" % (ind, s[1]))
                out.append("%swhile %s < %d { %s = %s + 1;" % (ind, s[1], s[2], s[1], s[1]))
                out += rb(s[3], ind + "  ")
                out.append("%s}" % ind)
            elif s[0] == "cb":
                items = "[" + ", ".join(str(i) for i in range(s[1])) + "]"
                method = s[3]
                if method == "sort":
                    # the comparator of an already sorted list of n + 1 elements (at most four) is called exactly n times
                    items = "[" + ", ".join(str(i) for i in range(s[1] + 1)) + "]"
                head = {"each": ".iter().each(|x| {", "map": ".iter().map(|x| {", "filter": ".iter().filter(|x| {",
                        "reduce": ".iter().reduce(0, |acc, x| {", "all": ".iter().all(|x| {", "sort": ".sort(|x, y| {"}[method]
                tail = {"each": "})", "map": " true }).list()", "filter": " true }).list()", "reduce": " acc + 1 })",
                        "all": " true })", "sort": " x - y })"}[method]
                out.append("%s%s%s" % (ind, items, head))
                out += rb(s[2], ind + "  ")
                out.append("%s%s;" % (ind, tail))
            elif s[0] == "cbfor":
                items = "[" + ", ".join(str(i) for i in range(s[1])) + "]"
                out.append("%sfor y in %s.iter().map(|x| {" % (ind, items))
                out += rb(s[2], ind + "  ")
                out.append("%s  x }) { }" % ind)
            elif s[0] == "sync":
                out.append("%sprint('Y', sync(%d));" % (ind, s[1]))
            elif s[0] == "capture_e":
                # the catch variable captured by a closure made inside the handler
                out.append("%sif true { let seen = || e.cls().name(); print('K', seen()); }" % ind)
            elif s[0] == "try":
                out.append("%stry {" % ind)
                out += rb(s[1], ind + "  ")
                for clause_filter, handler in [[s[3], s[4]]] + (s[5] if len(s) > 5 else []):
                    out.append("%s} catch e: %s { print('C', '%s', e.cls().name(), e.message == 'injected'%s);" % (
                        ind, clause_filter, clause_filter, names_tail(s[2])))
                    out += rb(handler, ind + "  ")
                out.append("%s}" % ind)
        return out

    def call_text(g, args):
        shape = funs[g]["shape"]
        text = ", ".join(str(a) for a in args)
        if shape == "method":
            return "Host().m%d(%s)" % (g, text)
        return "f%d(%s)" % (g, text)

    for fi in reversed(range(len(funs))):
        fun = funs[fi]
        ps = ", ".join("p%d_%d" % (j, fi) for j in range(fun["params"]))
        root_mode[0] = fi == 0 and bool(fun.get("root"))
        body = rb(fun["body"], "  ") + ["  FIN <- %d; return nil;" % (9000 + fi) if root_mode[0] else "  return %d;" % (9000 + fi)]
        if fun.get("pad"):
            # straight-line code without effect in front of everything else: the tries of this function begin around or
            # beyond byte 65536 of its bytecode (256 bytes per line), where two-byte quantities no longer hold an offset
            body = ["  " + " + ".join(["CNT"] * 64) + ";"] * fun["pad"] + body
        root_mode[0] = False
        if fun["shape"] == "method":
            lines.append("class Host%d : Host { m%d(%s) {" % (fi, fi, ps))
            lines += body
            lines.append("} }")
            # later classes extend earlier ones so Host() resolves every method: simpler to patch Host lazily
        elif fun["shape"] == "lambda":
            lines.append("let f%d = |%s| {" % (fi, ps))
            lines += body
            lines.append("};")
        else:
            lines.append("fn f%d(%s) {" % (fi, ps))
            lines += body
            lines.append("}")
    text = "\n".join(lines)
    # methods live in their own class, call them on an instance of that class
    for fi, fun in enumerate(funs):
        if fun["shape"] == "method":
            text = text.replace("Host().m%d(" % fi, "Host%d().m%d(" % (fi, fi))
    first = call_text(0, [7000 + j for j in range(funs[0]["params"])])
    if funs[0]["shape"] == "method":
        first = first.replace("Host().m0(", "Host0().m0(")
    if funs[0].get("root"):
        text = "let FIN = chan(1);\n" + text + "\nlaunch %s;\nprint('R', <- FIN);\n" % first
    else:
        text += "\ntry { print('R', %s); } catch e: %s { print('TOP', e.cls().name()); }\n" % (first, funs[0].get("top_filter", "Error"))
    text += "let after = %d;\nprint('END', CNT, after);\nclass LateErr : Error {}\n" % 4242
    return text


# ---------- model -----------------------------------------------------------------------------------

def model(funs, target, kind):
    out = []
    count = [0]

    def value(env, name):
        if name.startswith("g"):
            return value(env, env[name])
        return env[name]

    def show(label, env, names):
        return " ".join([label] + [str(value(env, name)) for name in names])

    def run_block(stmts, env):
        for s in stmts:
            if s[0] == "let":
                env[s[1]] = s[2]
            elif s[0] == "assign":
                if not s[1].startswith("g"):
                    env[s[1]] = s[2]
            elif s[0] == "capture":
                env[s[1]] = s[2]
            elif s[0] in ("fp", "fpi"):
                count[0] += 1
                if count[0] == target:
                    raise Raise(CLASS_OF[kind], kind in ("Error", "MyErr", "Shadow"), "a second class named MyErr" if kind == "Shadow" else None)
            elif s[0] == "call":
                out.append("R %s" % call(s[1], s[2]))
            elif s[0] == "print":
                out.append(show(s[1], env, s[2]))
            elif s[0] == "ret":
                raise Ret(s[1])
            elif s[0] == "break":
                raise Brk()
            elif s[0] == "continue":
                raise Cont()
            elif s[0] == "cb":
                for _ in range(s[1]):
                    run_block(s[2], env)
            elif s[0] == "cbfor":
                for _ in range(s[1]):
                    run_block(s[2], env)
            elif s[0] == "loop":
                for _ in range(s[1]):
                    try:
                        run_block(s[2], env)
                    except Brk:
                        break
                    except Cont:
                        continue
            elif s[0] == "while":
                env[s[1]] = 0
                while env[s[1]] < s[2]:
                    env[s[1]] += 1
                    try:
                        run_block(s[3], env)
                    except Brk:
                        break
                    except Cont:
                        continue
            elif s[0] == "sync":
                out.append("Y %d" % s[1])
            elif s[0] == "capture_e":
                out.append("K %s" % env["$error"])
            elif s[0] == "try":
                try:
                    run_block(s[1], env)
                except Raise as error:
                    for clause_filter, handler in [[s[3], s[4]]] + (s[5] if len(s) > 5 else []):
                        if clause_filter == "LateErr":
                            raise Raise("RuntimeError")
                        if clause_filter == "Error" or clause_filter == error.ident:
                            out.append(show("C %s %s %s" % (clause_filter, error.cls, "true" if error.raised else "false"), env, s[2]))
                            outer = env.get("$error")
                            env["$error"] = error.cls
                            try:
                                run_block(handler, env)
                            finally:
                                env["$error"] = outer
                            break
                    else:
                        raise

    def call(fi, args):
        env = {"p%d_%d" % (j, fi): a for j, a in enumerate(args)}
        try:
            run_block(funs[fi]["body"], env)
        except Ret as ret:
            return ret.value
        return 9000 + fi

    top = funs[0].get("top_filter", "Error") if not funs[0].get("root") else "nothing catches what escapes a fiber"
    try:
        out.append("R %s" % call(0, [7000 + j for j in range(funs[0]["params"])]))
    except Raise as error:
        if top == "LateErr":
            # evaluating the outermost filter raises itself and nothing is left to handle that
            out.append("UNHANDLED RuntimeError")
            return out, count[0]
        if top == "Error" or top == error.ident:
            out.append("TOP %s" % error.cls)
        else:
            # no matching handler anywhere: the program ends here
            out.append("UNHANDLED %s" % error.cls)
            return out, count[0]
    out.append("END %d 4242" % count[0])
    return out, count[0]


def has(funs, what):
    def walk(stmts):
        for s in stmts:
            if s[0] == what:
                return True
            for part in s[1:]:
                if isinstance(part, list) and part and isinstance(part[0], list) and walk(part):
                    return True
        return False
    return any(walk(fun["body"]) for fun in funs)


class C04(Check):
    prop = "C04"
    level = "fault_enumeration"
    technique = "deterministic simulation with fault injection: every dynamic fault point of a generated program x error kind (incl. injected fs read faults) is enumerated under seeded GC schedules; executable IR model as oracle"
    rule = ("a case is (generated program, failing dynamic fault point, error kind, collection schedule, address policy); programs have "
            "1..4 functions (functions, methods, lambdas) with 0..3 parameters, locals declared before/inside/after tries, "
            "assignments, captured variables, for/while loops, tries nested to depth 3 with class filters (Error, user subclass, "
            "IndexError, RuntimeError, PropertyError, IoError), handlers that contain fault points themselves, exits by completion, "
            "break, continue and return through several tries, and callbacks run by native iterators (each/map/filter/reduce/all and "
            "the for protocol over a lazy map); for every program every dynamic fault point (up to 40) is enumerated with a seeded "
            "subset of the 8 error kinds (all 8 in the thorough tier); kind IoError is a simulator-injected failure of the n-th "
            "file system read; distinct = distinct (program, fault point, kind); non-trivial = the injected error was caught by a "
            "handler of the program or crossed at least one frame")
    assumptions = [
        "the model interprets the generator's IR directly (environments are dicts, try/catch is python try/except with the class filter); it shares no code with Laythe",
        "every fault point performs exactly one read of the simulated file system, so 'the n-th read fails' addresses the n-th dynamic fault point",
        "built-in error classes are direct subclasses of Error (observed), so a filter matches its own class or everything (Error)",
    ]

    def runs(self, tier):
        return 2500 if tier == "quick" else 30000

    def make(self, ctx, index):
        rng = core.rng_for(ctx.seed, "c04", index)
        funs = generate(rng)
        _, dynamic = model(funs, 0, "Error")
        points = list(range(0, min(dynamic, 40) + 1))
        kinds = KINDS if ctx.tier == "thorough" else rng.sample(KINDS, 2)
        targets = [[point, kind] for point in points for kind in (kinds if point else kinds[:1])]
        gc = schedules.never() if rng.random() < 0.4 else schedules.random_schedule(rng, self.startup, self.startup + 800)
        case = {"ir": funs, "targets": targets, "gc": gc, "arena": schedules.random_policy(rng, 0.3)}
        # (drawn last so that the other dimensions of a case do not depend on it)
        if rng.random() < 0.03:
            funs[rng.randrange(len(funs))]["pad"] = rng.randint(250, 300)
            counted = targets[:1] + [t for t in targets[1:] if t[0] <= 12]
            case["targets"] = counted
        return case

    def judge(self, ctx, case):
        funs = case["ir"]
        outcome = {"jobs": 0, "violations": [], "signatures": [], "counters": {}}
        counters = outcome["counters"]
        program_id = core.mix(repr(funs)) & 0xFFFFFFFFFFFF
        # the fault-free execution is the reference: if the runtime cannot even run the program without an injected
        # error (for example a debug assertion of the compiler), the program says nothing about exception handling
        reference = ctx.run({"id": "frames-reference", "main": workloads.MAIN,
                             "files": {workloads.MAIN: render(funs, 0, "Error"), DATA: "data"}, "gc": schedules.never()})
        outcome["jobs"] += 1
        if core.host_failure(reference) or reference["vmexit"] != "ok":
            counters["invalid_workload"] = 1
            counters["invalid:" + (core.host_failure(reference) or reference["vmexit"])[:70]] = 1
            return outcome
        for target, kind in case["targets"]:
            source = render(funs, target, kind)
            try:
                expect, _ = model(funs, target, kind)
            except KeyError:
                # a shrink candidate that dropped a declaration which a handler still prints: not a program
                outcome["counters"]["invalid_shrink_candidate"] = 1
                return outcome
            job = {"id": "frames", "main": workloads.MAIN, "files": {workloads.MAIN: source, DATA: "data"}, "gc": case["gc"],
                   "arena": case["arena"]}
            if kind == "IoError" and target > 0:
                job["fs_faults"] = [{"path": DATA, "op": "read", "nth": target - 1, "kind": "other"}]
            result = ctx.run(job)
            outcome["jobs"] += 1
            got = result["stdout"].splitlines()
            problems = []
            failure = core.host_failure(result)
            unhandled = expect and expect[-1].startswith("UNHANDLED ")
            if unhandled and not failure:
                counters["errors_without_a_matching_handler"] = counters.get("errors_without_a_matching_handler", 0) + 1
                cls = expect[-1].split()[1]
                want = expect[:-1]
                if result["vmexit"] != "runtime" or result["exit"] == 0:
                    problems.append(("an error without a matching handler did not end the program with a failing status",
                                     "%s exit %s, stdout tail %r" % (result["vmexit"], result["exit"], got[-2:])))
                elif cls not in result["stderr"] or "Traceback" not in result["stderr"]:
                    problems.append(("an error without a matching handler did not produce a traceback naming its class",
                                     result["stderr"][-300:]))
                elif got != want:
                    problems.append(("execution after an injected error diverges from the model",
                                     "before the unhandled error the program printed %r, the model says %r" % (got[-3:], want[-3:])))
            elif failure:
                problems.append(("an injected error ended in a host failure", failure))
            elif result["vmexit"] != "ok":
                problems.append(("an injected error escaped every handler although one matches",
                                 "%s; stderr %r" % (result["vmexit"], result["stderr"][-300:])))
            elif got != expect:
                for number in range(max(len(got), len(expect))):
                    a = got[number] if number < len(got) else None
                    b = expect[number] if number < len(expect) else None
                    if a != b:
                        if a is not None and b is not None and a.split()[:2] == b.split()[:2]:
                            clause = "a variable in scope at the try lost its value"
                        elif (a or "").startswith("C ") or (b or "").startswith("C ") or (a or "").startswith("TOP") or (b or "").startswith("TOP"):
                            clause = "control resumed in a different handler than the innermost matching one"
                        else:
                            clause = "execution after an injected error diverges from the model"
                        problems.append((clause, "record %d is %r, the model says %r" % (number, a, b)))
                        break
            for problem in core.memory_failure(result):
                if "layout_mismatch" not in problem:
                    problems.append(("memory monitor while unwinding", problem))
            counters["fault_kind_" + kind] = counters.get("fault_kind_" + kind, 0) + (1 if target else 0)
            counters["faults_injected"] = counters.get("faults_injected", 0) + (1 if target else 0)
            counters["fs_faults_fired"] = counters.get("fs_faults_fired", 0) + len(result["fs_fired"])
            counters["unwinds_handled"] = counters.get("unwinds_handled", 0) + result["probes"].get("unwind_handled", 0)
            counters["unwinds_unhandled"] = counters.get("unwinds_unhandled", 0) + result["probes"].get("unwind_unhandled", 0)
            counters["native_error_roots_discarded"] = counters.get("native_error_roots_discarded", 0) + result["probes"].get("native_error_roots_discarded", 0)
            counters["handlers_pushed"] = counters.get("handlers_pushed", 0) + result["probes"].get("handler_push", 0)
            counters["collections_fired"] = counters.get("collections_fired", 0) + result["fired_total"]
            counters["vm_instructions"] = counters.get("vm_instructions", 0) + result["steps"]
            if target and (any(line.startswith("C ") for line in expect)):
                outcome["signatures"].append("%x|%d|%s" % (program_id, target, kind))
            seen = set()
            for clause, detail in problems:
                if clause in seen or len(outcome["violations"]) >= 4:
                    continue
                seen.add(clause)
                single = copy.deepcopy(case)
                single["targets"] = [[target, kind]]
                explicit = copy.deepcopy(single)
                if result["fired"] and case["gc"]["kind"] not in ("never", "native"):
                    explicit["gc"] = {"kind": "list", "points": result["fired"]}
                outcome["violations"].append({"clause": clause,
                                              "detail": "fault point %d kind %s: %s\n%s" % (target, kind, detail, source[:3500]),
                                              "case": single, "explicit": explicit})
        if any(fun.get("pad") for fun in funs):
            counters["programs_with_a_function_beyond_64k_of_bytecode"] = 1
        for shape in ("cb", "cbfor", "while", "capture"):
            if has(funs, shape):
                counters["programs_with_" + shape] = 1
        outcome["sample"] = {"program": render(funs, 0, "Error")[:900], "fault_points_enumerated": len(case["targets"]),
                             "kinds": sorted(set(kind for _, kind in case["targets"])), "schedule": case["gc"]["kind"]}
        return outcome

    def shrink_candidates(self, case, clause):
        """Drop statements anywhere in the IR (the model is re-run for every candidate, so it stays consistent);
        the failing fault point is re-targeted by trying every point again."""
        funs = case["ir"]

        def variants(stmts):
            for i in range(len(stmts)):
                yield stmts[:i] + stmts[i + 1:]
                s = stmts[i]
                for position, part in enumerate(s):
                    if isinstance(part, list) and part and isinstance(part[0], list):
                        for inner in variants(part):
                            yield stmts[:i] + [s[:position] + [inner] + s[position + 1:]] + stmts[i + 1:]

        kind = case["targets"][0][1]
        for fi in range(len(funs)):
            for body in variants(funs[fi]["body"]):
                candidate = copy.deepcopy(case)
                candidate["ir"][fi]["body"] = body
                try:
                    _, dynamic = model(candidate["ir"], 0, kind)
                except KeyError:
                    continue  # a dropped let that is still printed
                candidate["targets"] = [[point, kind] for point in range(1, min(dynamic, 40) + 1)]
                yield candidate


def factory():
    return C04()
