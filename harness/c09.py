"""C09 - strings compare and hash by content however and whenever they were created.

Workload: a history of steps over module level slots: create a string by a route (literal, +, interpolation,
slice, index, split piece, character iteration, number formatting, text exported by an imported module, text
read back through the simulated file system), drop a slot, re-create the text of a dropped slot by another
route, compare slots, use slots as map keys and list members - with `#gc` marker lines in between.
Schedule space: nursery/full/double collections placed right after the markers (between the drop of a
string and the re-creation of an equal one) plus seeded collections elsewhere, under eager/seeded address
reuse (a dangling intern key or a bypassed table shows as aliasing) and quarantine (shows as a poisoned read).
Oracle: the generator's content model (it chose every character), and the worker's intern-table monitor
(after each full collection the table holds exactly the owned strings, every key is its string's text).
"""
import copy

from . import core, schedules, workloads
from .runner import Check

ALPHABET = ["a", "b", "c", "x", "y", "é", "λ", "1", "_", "中"]


def lay_bool(value):
    return "true" if value else "false"


def generate(r):
    lines = []
    expect = []
    slots = {}
    dead = []
    map_keys = {}
    lines.append("import self.strmod;")
    lines.append("import std.io.fs:{readFile, writeFile};")
    lines.append("let M = {};")
    lines.append("fn churn(k) { let n = 0; for i in k.times() { let s = 'c${i}' + 'z'; n += s.len(); } n }")
    lines.append("fn rep(s, n) { let out = ''; for i in n.times() { out = out + s; } out }")
    # several thousand distinct strings alive at once: the intern table has to grow and re-bucket what it already holds
    lines.append("fn flood(k) { let keep = []; for i in k.times() { keep.push('key-${i}'); } keep.len() }")
    flooding = r.random() < 0.06
    header = len(lines)
    longs = []
    module_texts = []
    file_texts = []
    counter = [0]

    def text():
        return "".join(r.choice(ALPHABET) for _ in range(r.randint(0, 7)))

    def lit(t):
        return "'" + t + "'"

    def new_slot(expr, content):
        name = "s%d" % counter[0]
        counter[0] += 1
        lines.append("let %s = %s;" % (name, expr))
        slots[name] = content
        return name

    def live():
        return [name for name, value in slots.items() if value is not None]

    new_slot(lit("seed_text"), "seed_text")
    for _ in range(r.randint(10, 45)):
        act = r.choice(["long", "lit", "concat", "interp", "slice", "index", "split", "chars", "num", "same", "same", "drop", "drop",
                        "eq", "eq", "eq", "mset", "mget", "mget", "churn", "lhas", "gc", "gc", "module", "file", "lindex",
                        "mremove", "order", "near", "flood"])
        lv = live()
        if act == "flood":
            if flooding:
                flooding = False
                lines.append("print(flood(%d));" % r.choice([4000, 8000, 9000]))
                expect.append(lines[-1][12:16])
            continue
        if act == "near":
            # two strings of the same length (well over a hundred bytes) that differ only somewhere in the middle
            head = "".join(r.choice("abcxyz0123 ") for _ in range(r.randint(64, 100)))
            tail = "".join(r.choice("abcxyz0123 ") for _ in range(r.randint(64, 100)))
            width = r.randint(1, 4)
            first = "".join(r.choice("abcd") for _ in range(width))
            second = first
            while second == first:
                second = "".join(r.choice("abcd") for _ in range(width))
            a = new_slot("%s + %s + %s" % (lit(head), lit(first), lit(tail)), head + first + tail)
            b = new_slot(r.choice(["%s + %s", "'${%s}${%s}'"]) % (lit(head + second), lit(tail)), head + second + tail)
            lines.append("print(%s == %s, %s.slice(%d, %d), %s.slice(%d, %d));" % (a, b, a, len(head), len(head) + width, b, len(head), len(head) + width))
            expect.append("false %s %s" % (first, second))
            continue
        if act == "long" and len(longs) < 3:
            # strings of several thousand characters, created twice by separate loops (and once more by doubling)
            if longs and r.random() < 0.6:
                piece, count = r.choice(longs)
            else:
                piece, count = "".join(r.choice("abcxyz") for _ in range(r.randint(3, 6))), r.randint(700, 1500)
            longs.append((piece, count))
            if count % 2 == 0 and r.random() < 0.4:
                new_slot("rep(rep(%s, %d), 2)" % (lit(piece), count // 2), piece * count)
            else:
                new_slot("rep(%s, %d)" % (lit(piece), count), piece * count)
        elif act == "lit":
            t = text()
            new_slot(lit(t), t)
        elif act == "same":
            # the text of a live or dropped slot again, by another route
            pool = [slots[name] for name in lv] + dead
            if not pool:
                continue
            t = r.choice(pool)
            k = r.randint(0, len(t))
            route = r.choice(["concat", "interp", "slice"])
            if route == "concat":
                new_slot("%s + %s" % (lit(t[:k]), lit(t[k:])), t)
            elif route == "interp":
                new_slot("'${%s}${%s}'" % (lit(t[:k]), lit(t[k:])), t)
            else:
                new_slot("%s.slice(1, %d)" % (lit("#" + t + "#"), len(t) + 1), t)
        elif act == "concat" and len(lv) >= 2:
            a, b = r.choice(lv), r.choice(lv)
            new_slot("%s + %s" % (a, b), slots[a] + slots[b])
        elif act == "interp" and lv:
            a = r.choice(lv)
            x = r.randint(0, 99)
            new_slot("'p${%s}q${%d}'" % (a, x), "p%sq%d" % (slots[a], x))
        elif act == "slice" and lv:
            a = r.choice(lv)
            t = slots[a]
            i = r.randint(0, len(t))
            j = r.randint(i, len(t))
            new_slot("%s.slice(%d, %d)" % (a, i, j), t[i:j])
        elif act == "index" and lv:
            candidates = [name for name in lv if slots[name]]
            if not candidates:
                continue
            a = r.choice(candidates)
            i = r.randrange(len(slots[a]))
            new_slot("%s[%d]" % (a, i), slots[a][i])
        elif act == "split" and lv:
            a = r.choice(lv)
            t = slots[a]
            if "_" not in t or t.startswith("_") or t.endswith("_") or "__" in t:
                continue
            parts = t.split("_")
            k = r.randrange(len(parts))
            new_slot("%s.split('_').list()[%d]" % (a, k), parts[k])
        elif act == "chars" and lv:
            candidates = [name for name in lv if slots[name]]
            if not candidates:
                continue
            a = r.choice(candidates)
            i = r.randrange(len(slots[a]))
            new_slot("%s.iter().list()[%d]" % (a, i), slots[a][i])
        elif act == "num":
            x = r.randint(0, 999)
            new_slot("%d.str()" % x, str(x))
        elif act == "module":
            # the same text produced in another module
            pool = [slots[name] for name in lv] + dead
            t = r.choice(pool) if pool and r.random() < 0.7 else text()
            k = r.randint(0, len(t))
            module_texts.append("export let t%d = %s + %s;" % (len(module_texts), lit(t[:k]), lit(t[k:])))
            new_slot("strmod.t%d" % (len(module_texts) - 1), t)
        elif act == "file":
            # the text written to and read back from the (simulated) file system
            pool = [slots[name] for name in lv] + dead
            t = r.choice(pool) if pool and r.random() < 0.7 else text()
            path = "/sim/data%d.txt" % len(file_texts)
            file_texts.append((path, t))
            new_slot("readFile('%s')" % path, t)
        elif act == "drop" and len(lv) > 1:
            a = r.choice(lv)
            lines.append("%s = nil;" % a)
            dead.append(slots[a])
            slots[a] = None
        elif act == "eq" and lv:
            a, b = r.choice(lv), r.choice(lv)
            lines.append("print(%s == %s, %s != %s, %s <= %s && %s <= %s);" % (a, b, a, b, a, b, b, a))
            e = slots[a] == slots[b]
            expect.append("%s %s %s" % (lay_bool(e), lay_bool(not e), lay_bool(e)))
        elif act == "order" and len(lv) >= 2:
            a, b = r.choice(lv), r.choice(lv)
            lines.append("print(%s < %s, %s > %s);" % (a, b, a, b))
            ea, eb = slots[a].encode("utf-8"), slots[b].encode("utf-8")
            expect.append("%s %s" % (lay_bool(ea < eb), lay_bool(ea > eb)))
        elif act == "mset" and lv:
            a = r.choice(lv)
            v = r.randint(0, 999)
            lines.append("M[%s] = %d;" % (a, v))
            map_keys[slots[a]] = v
        elif act == "mget" and lv:
            a = r.choice(lv)
            t = slots[a]
            lines.append("print(M.has(%s), M.get(%s), M.len());" % (a, a))
            expect.append("%s %s %d" % (lay_bool(t in map_keys), map_keys.get(t, "nil"), len(map_keys)))
        elif act == "mremove" and lv:
            a = r.choice(lv)
            t = slots[a]
            if t in map_keys:
                lines.append("print(M.remove(%s));" % a)
                expect.append(str(map_keys.pop(t)))
        elif act == "lhas" and len(lv) >= 2:
            a, b, c = r.choice(lv), r.choice(lv), r.choice(lv)
            lines.append("print([%s, %s].has(%s), (%s, %s).has(%s));" % (a, b, c, a, b, c))
            e = slots[c] in (slots[a], slots[b])
            expect.append("%s %s" % (lay_bool(e), lay_bool(e)))
        elif act == "lindex" and len(lv) >= 2:
            a, b, c = r.choice(lv), r.choice(lv), r.choice(lv)
            lines.append("print([%s, %s].index(%s));" % (a, b, c))
            if slots[c] == slots[a]:
                expect.append("0")
            elif slots[c] == slots[b]:
                expect.append("1")
            else:
                expect.append("nil")
        elif act == "churn":
            lines.append("churn(%d);" % r.choice([3, 30, 300]))
        elif act == "gc":
            lines.append("print('#gc');")
            expect.append("#gc")
    # field and method names are strings too: a class of the first module uses its fields only through self, a
    # module compiled later (after collections) reaches the same members by name
    field = "f" + "".join(r.choice("abcxyz") for _ in range(r.randint(3, 9)))
    method = "m" + "".join(r.choice("abcxyz") for _ in range(r.randint(3, 9)))
    module_texts.append("export class Holder { init(v) { self.%s = v; self.other = 0; } %s() { self.%s + 1 } bump() { self.%s = self.%s + 10; self } }" % (
        field, method, field, field, field))
    value = r.randint(1, 90)
    position = r.randint(header + 1, len(lines))
    lines.insert(position, "let holder = strmod.Holder(%d);" % value)
    expect_position = sum(1 for line in lines[:position] if line.startswith("print("))
    tail = ["print('#gc');", "churn(30);", "print('#gc');", "import self.late;",
            # (the main module itself never names the members: its constants would keep the name strings alive)
            "print(late.field(holder), late.method(holder), late.field(holder.bump()));"]
    # the late module also holds module level texts of its own, in front of functions nested two and three deep (their
    # compilation allocates while only the compiler of the module refers to those texts)
    pool = [slots[name] for name in live()] + dead
    mark = r.choice(pool) if pool else "seed_text"
    cut = r.randint(0, len(mark))
    probe_slot = new_slot("%s + %s" % (lit(mark[:cut]), lit(mark[cut:])), mark)
    tail.append("print(late.mark == %s, late.marks.has(%s), late.label());" % (probe_slot, probe_slot))
    lines += tail
    expect += ["#gc", "#gc", "%d %d %d" % (value, value + 1, value + 10), "true true %s!" % mark]
    files = {workloads.MAIN: "\n".join(lines) + "\n",
             "/sim/strmod.lay": "\n".join(module_texts + ["export let loaded = true;"]) + "\n",
             "/sim/late.lay": ("export let mark = %s;\nexport let marks = [%s, 'other'];\n"
                               "export fn field(o) { let get = || o.%s; get() }\n"
                               "export fn method(o) { let outer = || { let inner = || o.%s(); inner() }; outer() }\n"
                               "export fn label() { let deco = |t| { let bang = || t + '!'; bang() }; deco(mark) }\n") % (
                                   lit(mark), lit(mark), field, method)}
    for path, t in file_texts:
        files[path] = t
    return {"name": "strings", "main": workloads.MAIN, "files": files, "lines": lines, "header": header}, expect


class C09(Check):
    prop = "C09"
    level = "exploration"
    technique = "deterministic simulation: string create/drop/re-create histories under marker-aligned and seeded GC schedules with eager address reuse, judged by a content model and an intern-table monitor"
    rule = ("a case is (generated string history, collection schedule, address policy); strings reach slots through 11 routes (literal, "
            "concatenation, interpolation, slice, index, split piece, character iteration, number formatting, export of an imported "
            "module, file read-back, re-creation of a dropped text) over an alphabet with 1-, 2- and 3-byte characters; observations "
            "are ==, !=, <=/>=, <, >, Map has/get/remove/len, List/Tuple has, List index; collections are placed after `#gc` markers "
            "(nursery / full / double, seeded) and at seeded other points; distinct = distinct (program, fired schedule); "
            "non-trivial = at least one intern-table eviction happened and at least one observation was made")
    assumptions = [
        "the generator computes the exact characters of every slot with python string operations on its own literals",
        "string ordering is compared with byte-wise UTF-8 order (Rust's str ordering)",
        "intern-table consistency is evaluated at quiescent points after full collections only",
    ]

    def runs(self, tier):
        return 10000 if tier == "quick" else 1500000

    def prepare(self, ctx):
        self.startup = self.startup_probe(ctx)

    def make(self, ctx, index):
        rng = core.rng_for(ctx.seed, "c09", index)
        program, expect = generate(rng)
        style = rng.choice(["markers", "markers", "markers+noise", "random"])
        if "print(flood(" in program["files"][program["main"]]:
            # (thousands of live strings: collections only at the markers keep the run short)
            style = "markers"
        return {"program": program, "expect": expect, "style": style, "seed": rng.getrandbits(48),
                "arena": schedules.random_policy(rng, 0.7), "gc": None}

    def schedule_for(self, ctx, case, probe):
        rng = core.rng_for(case["seed"], "schedule", 0)
        if case["style"] == "random":
            return schedules.random_schedule(rng, self.startup, max(self.startup + 50, probe["allocs"]))
        points = {}
        for mark in probe["marks"]:
            points[mark[1]] = rng.choice([schedules.NURSERY, schedules.FULL, schedules.FULL, schedules.FULL_TWICE])
        if case["style"] == "markers+noise":
            for alloc in range(self.startup, probe["allocs"]):
                if alloc not in points and rng.randrange(16) == 0:
                    points[alloc] = rng.choice([schedules.NURSERY, schedules.NURSERY, schedules.FULL])
        return schedules.points(points.items())

    def judge(self, ctx, case):
        program = case["program"]
        outcome = {"jobs": 0, "violations": [], "signatures": [], "counters": {}}
        counters = outcome["counters"]
        base = {"main": program["main"], "files": program["files"]}
        gc = case.get("gc")
        if gc is None:
            probe = ctx.run(dict(base, id="probe", gc=schedules.never()))
            outcome["jobs"] += 1
            if core.host_failure(probe):
                counters["invalid_workload"] = 1
                gc = schedules.every("full", self.startup)
            else:
                gc = self.schedule_for(ctx, case, probe)
        result = ctx.run(dict(base, id="strings", gc=gc, arena=case["arena"], acct=True))
        outcome["jobs"] += 1
        problems = []
        failure = core.host_failure(result)
        if failure:
            problems.append(("host failure in a string history", failure))
        else:
            lines = result["stdout"].splitlines()
            want = case["expect"]
            if want is not None and (lines != want or result["vmexit"] != "ok"):
                detail = "exit %s %s" % (result["vmexit"], result["stderr"][-300:])
                for number in range(max(len(lines), len(want))):
                    got = lines[number] if number < len(lines) else None
                    exp = want[number] if number < len(want) else None
                    if got != exp:
                        detail = "observation %d printed %r, the content model says %r; %s" % (number, got, exp, detail if result["vmexit"] != "ok" else "")
                        break
                problems.append(("string comparison or lookup disagrees with the characters of the strings", detail))
        for message in result["acct"]["violations"]:
            if "intern" in message:
                problems.append(("intern table is not exactly the live strings after a full collection", message))
        for problem in core.memory_failure(result):
            if "layout_mismatch" not in problem:
                problems.append(("memory monitor in a string history", problem))
        evictions = result["probes"].get("intern_evict", 0)
        counters["intern_evictions"] = evictions
        counters["intern_hits"] = result["probes"].get("intern_hit", 0)
        counters["collections_fired"] = result["fired_total"]
        counters["observations"] = len(case["expect"] or [])
        counters["blocks_reused"] = result["arena"].get("reused", 0)
        counters["intern_monitor_evaluations"] = result["acct"]["checks"]
        counters["policy_" + case["arena"].get("policy", "quarantine")] = 1
        counters["vm_instructions"] = result["steps"]
        if evictions > 0 and case["expect"]:
            outcome["signatures"].append("%x|%s" % (core.mix(program["files"][program["main"]]) & 0xFFFFFFFFFFFF,
                                                      schedules.hash_points(result["fired"])))
        seen = set()
        for clause, detail in problems:
            if clause in seen:
                continue
            seen.add(clause)
            explicit = copy.deepcopy(case)
            explicit["gc"] = {"kind": "list", "points": result["fired"]} if gc.get("kind") != "native" else gc
            pinned = copy.deepcopy(case)
            pinned["gc"] = gc
            outcome["violations"].append({"clause": clause, "detail": detail, "case": pinned, "explicit": explicit})
        outcome["sample"] = {"program_tail": program["lines"][-8:], "style": case["style"], "policy": case["arena"],
                             "collections": result["fired_total"], "intern_evictions": evictions}
        return outcome

    def shrink_candidates(self, case, clause):
        # only sound for clauses that do not depend on the expectation list
        if "disagrees" in clause:
            return
        program = case["program"]
        lines = program["lines"]
        header = program.get("header", 0)
        body = list(range(header, len(lines)))
        size = len(body) // 2
        while size >= 1:
            for start in range(0, len(body), size):
                drop = set(body[start:start + size])
                candidate = copy.deepcopy(case)
                candidate["program"]["lines"] = [line for i, line in enumerate(lines) if i not in drop]
                candidate["program"]["files"][program["main"]] = "\n".join(candidate["program"]["lines"]) + "\n"
                candidate["expect"] = None
                yield candidate
            size //= 2


def factory():
    return C09()
