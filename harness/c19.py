"""C19 - an interactive session behaves like the same declarations in one file.

Seam: scripted `read_line` (the prompt's only input), EOF as a fault that can arrive after any prefix.
Oracle: (1) stdout of the session with prompts stripped == stdout of `Vm::run` on the concatenation of the
entries that succeeded (failing entries are constructed to have no effect before they fail); (2) every
failing entry produces a diagnostic or traceback and the session continues; (3) prefix property: a session
cut by EOF after k entries prints exactly a prefix of the full session's output and exits 0 (enumerated for
every k); the session itself never ends in a host failure.
"""
import copy

from . import core, schedules, workloads
from .runner import Check

PROMPT = "laythe:> "


def generate(r):
    """entries: list of [text, ok] or [text, False, what the entry contributes to the one-file reference]; files: extra module files"""
    lets, fns, classes, objs, gfns, mods, closures, ghosts, pending, setters = [], [], [], [], [], [], [], [], [], []
    entries = []
    files = {}
    n = r.randint(4, 18)
    queued = []      # the remaining steps of scenarios that span several entries, in order
    for i in range(n):
        if queued and r.random() < 0.5:
            entries.append(queued.pop(0))
            continue
        kinds = ["let", "fn", "class", "bad", "mod", "closure", "fiber", "badimport", "workers", "abandoned", "latemodule"]
        if lets:
            kinds += ["nestedfn", "nestedfn"]
        if classes:
            kinds += ["obj", "sub", "obj"]
        if objs:
            kinds += ["gfn", "callm", "setp", "callm"]
        if fns:
            kinds += ["callf", "callf"]
        if gfns and objs:
            kinds += ["callg", "callg", "callg", "callg"]
        if mods:
            kinds += ["callmod", "callmod", "callmod"]
        if closures:
            kinds += ["callc", "callc"]
        if lets:
            kinds += ["assign"]
        kinds += ["ghost", "latefiber", "defthenraise", "relay", "brokenrun"]
        if lets:
            kinds += ["setter"]
        if setters:
            kinds += ["callsetter", "callsetter"]
        if pending:
            kinds += ["collect", "collect"]
        if ghosts:
            kinds += ["useghost", "useghost"]
        k = r.choice(kinds)
        if k == "let":
            name = "v%d" % i
            entries.append(["let %s = %d;" % (name, r.randint(1, 9)), True])
            lets.append(name)
        elif k == "assign":
            entries.append(["%s = %s + %d; print('a', %s);" % ((r.choice(lets),) * 2 + (r.randint(1, 5),) + (lets[0],)), True])
            # keep it simple: print the first let
        elif k == "nestedfn":
            # a function of a later line whose nested lambdas (one and two levels down) read a variable of an earlier line
            name = "nf%d" % i
            dep = r.choice(lets)
            form = r.choice(["fn %s(l) { l.iter().map(|v| v * %s).list() }",
                             "fn %s(l) { let scale = |v| { let inner = || v + %s; inner() }; l.iter().map(scale).list() }",
                             "let %s = |l| l.iter().map(|v| v + %s).list();"])
            entries.append([form % (name, dep), True])
            queued.append(["print('nested', %s([1, 2, 3]));" % name, True])
        elif k == "fn":
            name = "f%d" % i
            dep = r.choice(lets) if lets else "1"
            entries.append(["fn %s(a) { a + %s }" % (name, dep), True])
            fns.append(name)
        elif k == "class":
            name = "C%d" % i
            entries.append(["class %s { init(x) { self.x = x; self.y = x * 2; } get() { self.x } add(z) { self.x + z + self.y } static make(x) { %s(x) } }" % (name, name), True])
            classes.append(name)
        elif k == "sub":
            name = "D%d" % i
            entries.append(["class %s : %s { get() { super.get() + 100 } }" % (name, r.choice(classes)), True])
            classes.append(name)
        elif k == "obj":
            name = "o%d" % i
            cls = r.choice(classes)
            maker = "%s(%d)" % (cls, r.randint(1, 9)) if r.random() < 0.7 or cls.startswith("D") else "%s.make(%d)" % (cls, r.randint(1, 9))
            entries.append(["let %s = %s;" % (name, maker), True])
            objs.append(name)
        elif k == "gfn":
            name = "g%d" % i
            entries.append(["fn %s(o) { o.y = o.y + 1; o.get() + o.x + o.add(1) }" % name, True])
            gfns.append(name)
        elif k == "callm":
            o = r.choice(objs)
            entries.append(["print('m', %s.get(), %s.x, %s.add(2));" % (o, o, o), True])
        elif k == "setp":
            entries.append(["%s.x = %d;" % (r.choice(objs), r.randint(10, 19)), True])
        elif k == "callf":
            entries.append(["print('f', %s(%d));" % (r.choice(fns), r.randint(1, 5)), True])
        elif k == "callg":
            entries.append(["print('g', %s(%s));" % (r.choice(gfns), r.choice(objs)), True])
        elif k == "closure":
            name = "k%d" % i
            entries.append(["let %s = if true { let count = [0]; || { count.push(count.len()); count.len() } } else { nil };" % name, True])
            # `if` is not an expression in laythe; use a maker function instead
            entries[-1] = ["fn mk%d() { let count = [0]; || { count.push(count.len()); count.len() } } let %s = mk%d();" % (i, name, i), True]
            closures.append(name)
        elif k == "callc":
            entries.append(["print('c', %s(), %s());" % ((r.choice(closures),) * 2), True])
        elif k == "fiber":
            entries.append(["fn w%d(ch, n) { for j in n.times() { ch <- [j, 'w']; } ch.close(); } let ch%d = chan(2); launch w%d(ch%d, %d); print('fib', (<- ch%d)[0], <- ch%d != nil);" % (
                i, i, i, i, r.randint(2, 4), i, i), True])
        elif k == "setter":
            # a function of a later entry that assigns to a variable of an earlier entry
            name = "st%d" % i
            target = r.choice(lets)
            form = r.choice(["fn %s() { %s = %s + 10; %s }", "fn %s() { %s += 3; %s + 0 }", "let %s = || { %s = %s * 2; %s };"])
            entries.append([form % ((name,) + (target,) * (form.count("%s") - 1)), True])
            setters.append((name, target))
        elif k == "callsetter":
            name, target = r.choice(setters)
            entries.append(["print('set', %s(), %s);" % (name, target), True])
        elif k == "defthenraise":
            # an entry whose definitions take effect and which then raises: the definitions stay usable
            name = "dr%d" % i
            definition = "fn %s(o) { o.get() + o.add(1) }" % name if classes else "fn %s(o) { o + 1 }" % name
            entries.append(["%s raise Error('late'); print('unreachable');" % definition, False, definition])
            if classes:
                gfns.append(name)
            else:
                fns.append(name)
        elif k == "workers" and not any("jobs" in e[0] for e in queued):
            # consumers launched on one line stay parked on a channel across lines; a later line hands out one job and
            # closes the channel, a still later one collects what every consumer reports (the sum does not depend on who
            # got the job)
            consumers = r.randint(2, 3)
            job = r.randint(3, 9)
            entries.append(["let jobs%d = chan(%s); let res%d = chan(8);" % (i, r.choice(["", "1", "4"]), i), True])
            queued.append(["fn cons%d() { let v = <- jobs%d; while v != nil { res%d <- v; v = <- jobs%d; } res%d <- -1; }" % ((i,) * 5), True])
            launch = " ".join("launch cons%d();" % i for _ in range(consumers))
            if r.random() < 0.5:
                # the consumers get to run (and park) before the line ends
                launch += " if true { let t = chan(1); launch (|| { t <- 1; })(); <- t; }"
            queued.append([launch, True])
            queued.append(["jobs%d <- %d; jobs%d.close();" % (i, job, i), True])
            queued.append(["print('sum', %s);" % " + ".join("<- res%d" % i for _ in range(consumers + 1)), True])
        elif k == "latemodule" and not any("gen" in e[0] for e in queued):
            # a module that does not exist yet is imported (the line fails), the session then writes the file itself and
            # imports it again: nothing remembered from the failed attempt may stand in the way
            entries.append(["import self.gen%d; print('unreachable');" % i, False])
            queued.append(["import std.io.fs:{writeFile as wf%d}; wf%d('/sim/gen%d.lay', 'print(\\'run gen%d\\'); export let v = %d;');" % (
                i, i, i, i, 40 + i), True])
            queued.append(["import self.gen%d as g%d; print(g%d.v);" % (i, i, i), True])
            if r.random() < 0.5:
                queued.append(["import self.gen%d:{v as gv%d}; print(gv%d + 1);" % (i, i, i), True])
        elif k == "abandoned" and not any("ab" in e[0] for e in queued):
            # a fiber launched by a line raises while the line is parked on a channel: the line is given up with an error.
            # The session stays usable, in particular the channel: a later line that sends to it runs to its end
            entries.append(["let ab%d = chan(); fn bad%d() { raise Error('worker failed'); }" % (i, i), True])
            queued.append(["launch bad%d(); print('got', <- ab%d);" % (i, i), False, "launch (|| { print('got', <- ab%d); })();" % i])
            queued.append(["ab%d <- %d; let answer%d = %d; print('sent');" % (i, r.randint(1, 9), i, 40 + i), True])
            queued.append(["print(answer%d);" % i, True])
        elif k == "relay" and not any("rly" in e[0] for e in queued):
            # a line whose fiber parks on a channel and is woken by other routes than its registration there (a child that
            # ends, a value that arrives after a detour over a second channel): whatever the line's fiber leaves behind on
            # the channel when it returns, later lines use the same channel with fibers that park on it and end
            cap = r.choice(["", "1", "2", "3"])
            entries.append(["let rly%d = chan(%s); let rlyd%d = chan(%d);" % (i, cap, i, r.randint(1, 2)), True])
            queued.append(["fn rlysnd%d(v) { <- rlyd%d; rly%d <- v; } fn rlynop%d() { } fn rlykick%d() { rlyd%d <- 1; }" % ((i,) * 6), True])
            senders = r.randint(1, 2)
            launches = ["launch rlysnd%d(%d);" % (i, 7 + j) for j in range(senders)]
            launches += ["launch rlynop%d();" % i for _ in range(r.randint(0, 3))]
            kicks = ["launch rlykick%d();" % i for _ in range(senders)]
            if r.random() < 0.3:
                kicks[0] = "rlyd%d <- 1;" % i
            launches += kicks
            r.shuffle(launches)
            # with two senders the sum does not depend on which value arrives first
            queued.append(["%s print('relay', %s);" % (" ".join(launches), " + ".join("<- rly%d" % i for _ in range(senders))), True])
            for step in range(r.randint(1, 3)):
                form = r.choice([
                    "let rlyr%d_%d = chan(1); launch (|| { rlyr%d_%d <- (<- rly%d) + 1; })(); rly%d <- %d; print('probe', <- rlyr%d_%d);",
                    "let rlyr%d_%d = chan(1); launch (|| { rly%d <- %d; rlyr%d_%d <- 0; })(); print('probe', <- rly%d, <- rlyr%d_%d);"])
                if form.startswith("let rlyr%d_%d = chan(1); launch (|| { rlyr"):
                    queued.append([form % (i, step, i, step, i, i, 20 + step, i, step), True])
                else:
                    queued.append([form % (i, step, i, 30 + step, i, step, i, i, step), True])
        elif k == "brokenrun" and not any("brk" in e[0] for e in queued):
            # two or three imports in a row of modules that do not compile (different ones, or the same one again), then a
            # module that does compile is imported and called into: what the failed compilations left behind (module ids,
            # cache slots) must not shift what the good module gets
            count = r.randint(2, 3)
            names = []
            for j in range(count):
                if names and r.random() < 0.3:
                    names.append(r.choice(names))
                else:
                    name = "brk%d_%d" % (i, j)
                    files["/sim/%s.lay" % name] = r.choice(["export fn oops( { 1 }\n", "export let a = ;\n", "class K { init( { } }\nexport let k = K;\n"])
                    names.append(name)
            steps = [["import self.%s; print('unreachable');" % name, False] for name in names]
            good = "brkgood%d" % i
            files["/sim/%s.lay" % good] = ("class K { init(v) { self.v = v; self.w = v + 1; } twice() { self.v * 2 } plus() { self.w + self.v } }\n"
                                           "export fn use(v) { let k = K(v); k.twice() + k.v + k.plus() }\n"
                                           "export let tag = '%s';\n" % good)
            steps.append(["import self.%s;" % good, True])
            steps.append(["print('mod', %s.use(%d), %s.tag);" % (good, r.randint(1, 9), good), True])
            if r.random() < 0.5:
                steps.append(["print('mod', %s.use(%d), %s.tag);" % (good, r.randint(1, 9), good), True])
            entries.append(steps[0])
            queued.extend(steps[1:])
        elif k == "latefiber":
            # a fiber launched by one entry and not run yet when the entry ends; a later entry communicates with it
            entries.append(["fn lw%d(ch, n) { for j in n.times() { ch <- j * %d; } } let lch%d = chan(2); launch lw%d(lch%d, 2);" % (
                i, i + 1, i, i, i), True])
            pending.append([i, 0])
        elif k == "collect":
            slot = r.choice(pending)
            entries.append(["print('late', <- lch%d);" % slot[0], True])
            slot[1] += 1
            if slot[1] == 2:
                pending.remove(slot)
        elif k == "ghost":
            # a declaration whose initialiser raises: the entry fails, the name must not become usable garbage
            name = "z%d" % i
            entries.append(["let %s = %s;" % (name, r.choice(["[1][4]", "nil()", "{}['missing']", "1 + nil"])), False])
            ghosts.append(name)
        elif k == "useghost":
            # using the name of a failed declaration must fail like any other error, not take the session down
            name = r.choice(ghosts)
            # (assigning to it is not generated: whether the name of a failed declaration may be assigned later is
            # not something the property settles)
            entries.append([r.choice(["print(%s);", "let y%d = %%s;" % i, "print(%s + 1);"]) % name, False])
        elif k == "mod":
            name = "mod%d" % i
            files["/sim/%s.lay" % name] = ("class K { init(v) { self.v = v; } twice() { self.v * 2 } }\n"
                                           "export fn use(v) { let k = K(v); k.twice() + k.v }\n"
                                           "export let tag = '%s';\n" % name)
            entries.append(["import self.%s;" % name, True])
            mods.append(name)
        elif k == "callmod":
            m = r.choice(mods)
            entries.append(["print('mod', %s.use(%d), %s.tag);" % (m, r.randint(1, 9), m), True])
        elif k == "badimport":
            which = r.choice(["missing", "broken", "again", "again"])
            failed = [e[0].split(";")[0] for e in entries if e[0].startswith("import self.nowhere") or e[0].startswith("import self.broken")]
            if which == "again" and failed:
                # a failed import fails again however often it is repeated: nothing of the first attempt is left behind
                entries.append(["%s as again%d; print('unreachable');" % (r.choice(failed), i), False])
            elif which == "missing" or which == "again":
                entries.append(["import self.nowhere%d; print('unreachable');" % i, False])
            else:
                files["/sim/broken%d.lay" % i] = "export fn oops( { 1 }\n"
                entries.append(["import self.broken%d; print('unreachable');" % i, False])
        else:
            b = r.choice(["undef", "syntax", "raise", "callnil", "redecl", "undefprop", "arity"])
            if b == "undef":
                entries.append(["print(nope_name);", False])
            elif b == "syntax":
                entries.append(["print(1 + );", False])
            elif b == "raise":
                entries.append(["raise Error('e'); print('unreachable');", False])
            elif b == "callnil":
                entries.append(["nil(); print('unreachable');", False])
            elif b == "redecl" and lets:
                entries.append(["let %s = 0;" % r.choice(lets), False])
            elif b == "undefprop" and objs:
                entries.append(["%s.nothing_here(); print('unreachable');" % r.choice(objs), False])
            elif b == "arity" and fns:
                entries.append(["%s(1, 2, 3); print('unreachable');" % r.choice(fns), False])
            else:
                entries.append(["let = 4;", False])
    entries += queued
    return entries, files


class C19(Check):
    prop = "C19"
    level = "exploration"
    technique = "deterministic simulation: scripted read_line sessions with failing entries, EOF injected after every prefix, seeded GC schedules; differential against Vm::run on the concatenated successful entries"
    rule = ("a case is (generated session of 4..18 entries, collection schedule, address policy); entries define lets, functions, classes, "
            "subclasses, instances, closures, functions with property/method/super call sites, import modules, and call into "
            "definitions from any earlier entry; failing entries: syntax error, undeclared name, redeclaration, raise, call of nil, "
            "undefined property, wrong arity, missing module, module that does not compile; EOF is injected after every prefix "
            "(enumerated); distinct = distinct (session text, fired schedule); non-trivial = at least one entry called into a "
            "definition from an earlier entry after an intervening entry")
    assumptions = [
        "failing entries are constructed to have no effect before they fail, so the reference file is the concatenation of the successful entries",
        "fibers either live within one entry or are launched by one entry and communicated with by later entries through a buffered channel (never more receives than sends)",
        "prompts are stripped by removing the literal prompt text",
    ]

    def runs(self, tier):
        return 4000 if tier == "quick" else 80000

    def make(self, ctx, index):
        rng = core.rng_for(ctx.seed, "c19", index)
        entries, files = generate(rng)
        gc = schedules.never() if rng.random() < 0.35 else schedules.random_schedule(rng, self.startup, self.startup + 600)
        return {"entries": entries, "files": files, "gc": gc, "arena": schedules.random_policy(rng, 0.4),
                "prefixes": rng.random() < 0.5}

    def judge(self, ctx, case):
        entries = case["entries"]
        outcome = {"jobs": 0, "violations": [], "signatures": [], "counters": {}}
        counters = outcome["counters"]
        session = {"id": "session", "mode": "repl", "files": dict(case["files"]), "stdin": [entry[0] + "\n" for entry in entries],
                   "gc": case["gc"], "arena": case["arena"]}
        result = ctx.run(session)
        outcome["jobs"] += 1
        # a failing entry contributes nothing, except for the part that took effect before it raised (third element)
        reference_source = "\n".join(entry[0] if entry[1] else entry[2] for entry in entries if entry[1] or len(entry) > 2) + "\n"
        files = dict(case["files"])
        files[workloads.MAIN] = reference_source
        reference = ctx.run({"id": "file", "main": workloads.MAIN, "files": files, "gc": schedules.never()})
        outcome["jobs"] += 1
        problems = []
        failure = core.host_failure(result)
        if core.host_failure(reference) or reference["vmexit"] != "ok":
            counters["invalid_workload"] = 1
            if not failure:
                return outcome
        if failure:
            problems.append(("the session ended in a host failure", failure))
        else:
            shown = result["stdout"].replace(PROMPT, "")
            if shown != reference["stdout"]:
                a, b = shown, reference["stdout"]
                n = 0
                while n < len(a) and n < len(b) and a[n] == b[n]:
                    n += 1
                problems.append(("the session's output differs from running the successful entries as one file",
                                 "at offset %d: session %r, file %r" % (n, a[max(0, n - 40):n + 60], b[max(0, n - 40):n + 60])))
            if result["vmexit"] != "ok" or result["exit"] != 0:
                problems.append(("the session did not end normally at end of input", "%s %s" % (result["vmexit"], result["exit"])))
            if result["stdout"].count(PROMPT) != len(entries) + 1:
                problems.append(("the session did not prompt once per entry", "%d prompts for %d entries" % (
                    result["stdout"].count(PROMPT), len(entries))))
            failing = sum(1 for entry in entries if not entry[1])
            if failing and not result["stderr"].strip():
                problems.append(("a failing entry produced no diagnostic", "%d failing entries, empty stderr" % failing))
            if not failing and result["stderr"].strip():
                problems.append(("a successful session wrote diagnostics", result["stderr"][:300]))

        if case.get("prefixes") and not failure:
            full = result["stdout"]
            for k in range(len(entries)):
                cut = dict(session, id="prefix%d" % k, stdin=session["stdin"][:k])
                part = ctx.run(cut)
                outcome["jobs"] += 1
                counters["eof_injected_after_prefix"] = counters.get("eof_injected_after_prefix", 0) + 1
                fail_part = core.host_failure(part)
                if fail_part:
                    problems.append(("a session cut by end of input ended in a host failure", "after %d entries: %s" % (k, fail_part)))
                    break
                if not full.startswith(part["stdout"]) or part["vmexit"] != "ok" or part["exit"] != 0:
                    problems.append(("a session cut by end of input does not print a prefix of the full session",
                                     "after %d entries: exit %s/%s, output %r" % (k, part["vmexit"], part["exit"], part["stdout"][-200:])))
                    break

        # did an entry call into an earlier definition after an intervening entry
        cross = 0
        for number, (text, ok) in enumerate((entry[0], entry[1]) for entry in entries):
            if ok and (text.startswith("print('g'") or text.startswith("print('mod'") or text.startswith("print('c'")
                       or text.startswith("print('f'") or text.startswith("print('m'")):
                cross += 1
        counters["entries"] = len(entries)
        counters["failing_entries"] = sum(1 for entry in entries if not entry[1])
        counters["entries_calling_earlier_definitions"] = cross
        counters["collections_fired"] = result["fired_total"]
        counters["read_line_calls"] = result.get("read_lines", 0)
        counters["vm_instructions"] = result["steps"]
        if cross > 0:
            outcome["signatures"].append("%x|%s" % (core.mix(repr(entries)) & 0xFFFFFFFFFFFF, schedules.hash_points(result["fired"])))
        seen = set()
        for clause, detail in problems:
            if clause in seen:
                continue
            seen.add(clause)
            explicit = copy.deepcopy(case)
            if result["fired"] and case["gc"]["kind"] not in ("never", "native"):
                explicit["gc"] = {"kind": "list", "points": result["fired"]}
            outcome["violations"].append({"clause": clause, "detail": detail + "\n--- session ---\n" + "\n".join(
                ("   " if entry[1] else "BAD ") + entry[0] for entry in entries), "case": copy.deepcopy(case), "explicit": explicit})
        outcome["sample"] = {"session": [entry[0] for entry in entries][:8], "failing": [entry[0] for entry in entries if not entry[1]][:3],
                             "schedule": case["gc"]["kind"], "prefixes_enumerated": bool(case.get("prefixes"))}
        return outcome

    def shrink_candidates(self, case, clause):
        entries = case["entries"]
        for i in range(len(entries) - 1, -1, -1):
            candidate = copy.deepcopy(case)
            del candidate["entries"][i]
            yield candidate
        if case.get("prefixes") and "cut by end of input" not in clause:
            candidate = copy.deepcopy(case)
            candidate["prefixes"] = False
            yield candidate


def factory():
    return C19()
