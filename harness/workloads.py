"""Seeded program generators shared by the schedule-differential checks (C05, C14, C20).

Every generator is a pure function of the `random.Random` it is given. A program is
{"name", "main", "files", "lines"?}; when "lines" is present the main file is the concatenation of
independently deletable top level statements, which is what the minimiser shrinks.

Generators avoid what the simulator does not control or what is a documented exclusion:
no rand(), no clock values in output, no printing of closures/instances by address (normalised anyway),
no iteration over maps keyed by objects.
"""
import copy

MAIN = "/sim/main.lay"


def program(name, lines, extra_files=None):
    files = {MAIN: "\n".join(lines) + "\n"}
    if extra_files:
        files.update(extra_files)
    return {"name": name, "main": MAIN, "files": files, "lines": list(lines)}


# --- iterator pipelines with allocating callbacks --------------------------------------------------

def pipes(r):
    # in a third of the programs every pipeline is the root function of a freshly launched fiber and most sources are
    # walks over maps (the entry of a step is held by the iterator alone)
    roots = r.random() < 0.33

    def src():
        k = r.choice(['nums', 'strs', 'times', 'chars', 'nested', 'tuple', 'until', 'mapnum', 'mapnum'])
        if roots and r.random() < 0.6:
            k = 'mapnum'
        if k == 'mapnum':
            # a map iterator hands out a fresh [key, value] list per step that nothing but the iterator refers to
            # (number keys: the order of the walk is a function of the keys alone)
            walk = "{" + ", ".join("%d: %s" % (key, r.choice(["'mv%d'" % key, "['in${%d}']" % key, "%d" % key]))
                                   for key in r.sample(range(12), r.randint(0, 7))) + "}.iter()"
            # zipped, the entry of this step is held by the iterator alone while the other side advances and the pair is made
            form = r.choice(["plain", "plain", "plain", "plain", "zip_left", "zip_right", "zip_self"])
            if form == "zip_left":
                return "%s.zip(%s)" % (walk, src())
            if form == "zip_right":
                return "%s.zip(%s)" % (src(), walk)
            if form == "zip_self":
                return "%s.zip(%s.map(|kv| [kv, 'w${kv[0]}']))" % (walk, walk)
            return walk
        if k == 'nums':
            return "[" + ", ".join(str(r.randint(0, 9)) for _ in range(r.randint(0, 6))) + "].iter()"
        if k == 'strs':
            return "[" + ", ".join("'w%d'" % r.randint(0, 9) for _ in range(r.randint(0, 6))) + "].iter()"
        if k == 'times':
            return "%d.times()" % r.randint(0, 6)
        if k == 'until':
            return "%d.until(%d)" % (r.randint(0, 3), r.randint(3, 8))
        if k == 'chars':
            return "'" + "".join(r.choice('abcxyz') for _ in range(r.randint(0, 6))) + "'.iter()"
        if k == 'tuple':
            return "(" + ", ".join("'t%d'" % r.randint(0, 9) for _ in range(r.randint(2, 5))) + ").iter()"
        return "[" + ", ".join("[%d, 'n%d']" % (r.randint(0, 9), r.randint(0, 9)) for _ in range(r.randint(0, 5))) + "].iter()"

    def adaptor():
        k = r.choice(['map_s', 'map_l', 'filter', 'take', 'skip', 'zip', 'chain', 'map_c', 'map_m', 'map_t'])
        if k == 'map_s':
            return ".map(|x| 'm${x}' + '!')"
        if k == 'map_l':
            return ".map(|x| [x, 'l${x}'])"
        if k == 'map_m':
            return ".map(|x| { let m = {'k': 'v${x}'}; m['k'] })"
        if k == 'map_t':
            return ".map(|x| ('t${x}', [x]))"
        if k == 'map_c':
            return ".map(|x| { let y = [x]; || y })"
        if k == 'filter':
            return ".filter(|x| { let t = 'f${x}'; t.len() > %d })" % r.randint(1, 4)
        if k == 'take':
            return ".take(%d)" % r.randint(0, 4)
        if k == 'skip':
            return ".skip(%d)" % r.randint(0, 3)
        if k == 'zip':
            return ".zip(%s)" % src()
        return ".chain(%s)" % src()

    def sink(p):
        k = r.choice(['list', 'reduce_s', 'reduce_l', 'each', 'all', 'any', 'first', 'last', 'len', 'sort', 'into',
                      'str', 'for', 'into_tuple'])
        if k == 'list':
            return "print(%s.list());" % p
        if k == 'reduce_s':
            return "print(%s.reduce('', |acc, x| acc + '${x}' + ','));" % p
        if k == 'reduce_l':
            return "print(%s.reduce([], |acc, x| { let n = ['${x}']; for a in acc { n.push(a); } n }));" % p
        if k == 'each':
            return "if true { let out = []; %s.each(|x| { out.push('e${x}'); }); print(out); }" % p
        if k == 'all':
            return "print(%s.all(|x| { let t = 'a${x}'; t.len() > 0 }));" % p
        if k == 'any':
            return "print(%s.any(|x| { let t = 'a${x}'; t.len() > 99 }));" % p
        if k == 'first':
            return "print(%s.first());" % p
        if k == 'last':
            return "print(%s.last());" % p
        if k == 'len':
            return "print(%s.len());" % p
        if k == 'sort':
            return ("print(%s.list().sort(|a, b| { let t = 'c${a}' + 'd${b}'; t.len() - 4 - t.len() + 4 }).len());" % p)
        if k == 'into':
            return "print(%s.into(List.collect));" % p
        if k == 'into_tuple':
            return "print(%s.into(Tuple.collect));" % p
        if k == 'for':
            return "if true { let acc = []; for x in %s { acc.push('z${x}'); } print(acc); }" % p
        return "print('${%s.list()}');" % p

    lines = []
    for _ in range(r.randint(2, 8)):
        p = src()
        for _ in range(r.randint(0, 3)):
            p += adaptor()
        s = sink(p)
        if 'map(|x| { let y = [x]; || y })' in p:
            # closures print with their address, observe what they capture instead
            s = ("print(%s.map(|f| f()).list());" % p) if r.random() < 0.7 else ("print(%s.len());" % p)
        if roots or r.random() < 0.1:
            # the pipeline runs as the root function of a freshly launched fiber: its stack is sized for that function alone,
            # so the first callback a native makes has to grow it (an allocation between the iterator's step and the callback)
            s = "if true { let fin = chan(1); launch (|| { %s fin <- 1; })(); <- fin; }" % s
        lines.append(s)
    return program("pipes", lines)


# --- object churn: every object kind, cycles, closures, boxes, errors, deep stacks -----------------

def churn(r):
    lines = [
        "class Node { init(v) { self.v = v; self.next = nil; self.tag = 'n${v}'; } chain(n) { if n == 0 { return self; } let c = Node(self.v + 1); c.next = self; c.chain(n - 1) } }",
        "class Box { init(x) { self.x = x; } get() { self.x } set(x) { self.x = x; self } }",
        "fn mk(i) { let acc = ['s${i}']; |y| { acc.push('${y}:${i}'); acc } }",
        "fn deep(n, keep) { if n == 0 { return keep.len(); } let local = ['d${n}', keep]; deep(n - 1, local) + local.len() - 2 }",
        "fn thrower(n) { if n == 0 { raise Error('boom ${[1, 2].len()}'); } let pad = 'p${n}'; thrower(n - 1); pad }",
        "let keep = [];",
        "let table = {};",
        # a user defined str() that recurses deeply (the fiber's stack grows) and allocates, for natives that convert
        # several arguments one after the other
        "class Deep { init(n) { self.n = n; } str() { let pad = ['s${self.n}']; 'deep' + deep(self.n, pad).str() } }",
        # a class hierarchy made at run time of which only the leaf is handed out: the ancestors stay reachable through the
        # leaf's superclass link alone
        "fn mkerr(tag) { class SErr : Error { where() { 'storage' } } class MErr : SErr {} class DErr : MErr { tag() { tag } } DErr }",
    ]
    body = []
    for i in range(r.randint(3, 10)):
        k = r.choice(['node', 'closure', 'map', 'tuple', 'error', 'deep', 'strings', 'box', 'cycle', 'method', 'sortcb',
                      'slice', 'interp', 'nested_fn', 'enumerate', 'userstr', 'userstr', 'hierarchy', 'hierarchy'])
        v = r.randint(0, 9)
        if k == 'node':
            body.append("keep.push(Node(%d).chain(%d).tag);" % (v, r.randint(0, 6)))
        elif k == 'userstr':
            depth = r.choice([5, 40, 120, 200])
            form = r.choice(['print', 'interp', 'list', 'concat'])
            if form == 'print':
                body.append("print(Deep(%d), 'second${%d}', [1, '${%d}', 3], Deep(%d), 'last');" % (depth, v, v, depth // 2))
            elif form == 'interp':
                body.append("keep.push('a${Deep(%d)}b${[%d, 'x${%d}']}c${Deep(%d)}');" % (depth, v, v, depth))
            elif form == 'list':
                body.append("print([Deep(%d), ['in${%d}'], Deep(%d)], (Deep(%d), 'tuple${%d}'));" % (depth, v, depth // 3, depth, v))
            else:
                body.append("keep.push(Deep(%d).str() + 'tail${%d}');" % (depth, v))
        elif k == 'hierarchy':
            body.append("if true { let E = mkerr('t${%d}'); keep.push(deep(%d, ['over'])); let pad = []; for i in %d.times() { pad.push('pad${i}'); } "
                        "let f = E('m${%d}'); keep.push([f.isA?(Error), f.where(), f.tag(), E.superCls().superCls().name(), pad.len()]); "
                        "try { raise E('r${%d}'); } catch e: Error { keep.push(e.message + e.cls().superCls().name()); } }" % (
                            v, r.randint(2, 9), r.choice([3, 30, 120]), v, v))
        elif k == 'closure':
            body.append("if true { let f = mk(%d); f('a'); keep.push(f('b').len()); }" % v)
        elif k == 'map':
            body.append("table['k%d'] = ['m%d', {'in': 'x${%d}'}]; keep.push(table.len());" % (v, v, v))
        elif k == 'tuple':
            body.append("keep.push(('t${%d}', [%d], {'a': %d})[0]);" % (v, v, v))
        elif k == 'error':
            body.append("try { thrower(%d); } catch e: Error { keep.push(e.message + '${e.backTrace.len()}'); }" % r.randint(0, 5))
        elif k == 'deep':
            body.append("keep.push(deep(%d, ['base']));" % r.randint(1, 12))
        elif k == 'strings':
            body.append("if true { let s = ''; for i in %d.times() { s = s + '${i}-' + 'q'; } keep.push(s.len()); }" % r.randint(1, 8))
        elif k == 'box':
            body.append("keep.push(Box(['b%d']).set(Box('inner${%d}')).get().get());" % (v, v))
        elif k == 'cycle':
            body.append("if true { let a = Box(nil); let b = Box(a); a.set(b); keep.push(b.get().get() == b); }")
        elif k == 'method':
            body.append("if true { let m = Box('bm${%d}').get; keep.push(m()); }" % v)
        elif k == 'sortcb':
            body.append("keep.push([%s].sort(|a, b| { let t = ['${a}', '${b}']; a - b })[0]);" % ", ".join(str(r.randint(0, 9)) for _ in range(r.randint(2, 6))))
        elif k == 'slice':
            body.append("keep.push('abcdefgh${%d}'.slice(%d, %d) + 'x'.upCase());" % (v, r.randint(0, 3), r.randint(4, 8)))
        elif k == 'interp':
            body.append("keep.push('${[1, '${%d}', [2]]} ${{'k': %d}.len()} ${(1, 2)}');" % (v, v))
        elif k == 'nested_fn':
            body.append("if true { fn outer(a) { let b = ['o${a}']; fn inner(c) { b.push('${c}'); b } inner } keep.push(outer(%d)(%d).len()); }" % (v, v))
        else:
            body.append("if true { let out = []; for x in ['e%d', 'f%d'].iter().map(|s| s + '!') { out.push(x); } keep.push(out); }" % (v, v))
    lines += body
    lines.append("print(keep);")
    lines.append("print(table.len());")
    return program("churn", lines)


# --- fibers whose values live only in channel buffers or suspended frames --------------------------

def fibers(r):
    n = r.randint(1, 4)
    cap = r.randint(1, 4)
    count = r.randint(1, 5)
    lines = [
        "let results = chan(%d);" % (n * count + 1),
        "fn producer(id, out, n) { for i in n.times() { let payload = ['p${id}', {'i': 'v${i}'}, |x| 'c${id}${i}${x}']; out <- payload; } out <- nil; }",
        "fn relay(inp, out) { let held = ['held']; let v = <- inp; while v != nil { held.push(v[0]); out <- [v[0], v[1]['i'], v[2]('z'), held.len()]; v = <- inp; } out <- nil; }",
    ]
    for i in range(n):
        lines.append("let c%d = chan(%d);" % (i, cap if r.random() < 0.7 else 1))
        lines.append("launch producer(%d, c%d, %d);" % (i, i, count))
        lines.append("launch relay(c%d, results);" % i)
    lines.append("let done = 0; let got = [];")
    lines.append("while done < %d { let v = <- results; if v == nil { done = done + 1; } else { got.push('${v}'); } }" % n)
    lines.append("print(got.len());")
    lines.append("print(got.sort(|a, b| { if a < b { return -1; } if a > b { return 1; } 0 }));")
    return {"name": "fibers", "main": MAIN, "files": {MAIN: "\n".join(lines) + "\n"}}


FAMILIES = [("pipes", pipes, 4), ("churn", churn, 4), ("fibers", fibers, 2)]
_EXTRA = []


def register(name, generator, weight):
    """Generators of the other checks add themselves here so C05/C14 run their workloads as well."""
    _EXTRA.append((name, generator, weight))


def generate(rng):
    families = FAMILIES + _EXTRA
    total = sum(weight for _, _, weight in families)
    roll = rng.random() * total
    for name, generator, weight in families:
        roll -= weight
        if roll < 0:
            break
    result = generator(rng)
    result["name"] = "%s#%x" % (name, rng.getrandbits(32))
    return result


def shrink_program_candidates(case):
    """Cases with fewer top level statements (only for programs made of independent lines)."""
    program_ = case.get("program")
    if not program_ or not program_.get("lines"):
        return
    lines = program_["lines"]
    n = len(lines)
    chunks = []
    size = n // 2
    while size >= 1:
        for start in range(0, n, size):
            chunks.append((start, min(n, start + size)))
        size //= 2
    for start, end in chunks:
        if end - start >= n:
            continue
        kept = lines[:start] + lines[end:]
        candidate = copy.deepcopy(case)
        candidate["program"]["lines"] = kept
        candidate["program"]["files"][candidate["program"]["main"]] = "\n".join(kept) + "\n"
        yield candidate
