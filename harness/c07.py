"""C07 (channels deliver exactly once, in order, within capacity) and C08 (fibers make progress; deadlock
exactly when nothing can run) share workload and runs; they differ in the oracle clauses they own."""
import copy

from . import core, nets, schedules
from .runner import Check


class NetCheck(Check):
    level = "exploration"
    own = "history"

    quick_runs = 8000

    def runs(self, tier):
        return self.quick_runs if tier == "quick" else 150000

    def prepare(self, ctx):
        self.startup = self.startup_probe(ctx)

    def make(self, ctx, index):
        rng = core.rng_for(ctx.seed, "nets", index)
        if self.own == "progress" and index % 40 == 39:
            # fairness probe: runnable fibers get their turn although two other fibers keep handing over to each other
            return {"starve": nets.starve_generate(rng), "gc": schedules.never() if rng.random() < 0.6 else
                    schedules.random_schedule(rng, self.startup, self.startup + 300), "arena": schedules.random_policy(rng, 0.4)}
        ir = nets.generate(rng)
        roll = rng.random()
        if roll < 0.5:
            gc = schedules.never()
        else:
            gc = schedules.random_schedule(rng, self.startup, self.startup + 300)
        return {"ir": ir, "gc": gc, "arena": schedules.random_policy(rng, 0.4)}

    def judge_starve(self, ctx, case):
        outcome = {"jobs": 1, "violations": [], "signatures": [], "counters": {"fairness_probes": 1}}
        program = nets.starve_program(case["starve"])
        result = ctx.run({"id": "starve", "main": program["main"], "files": program["files"], "gc": case["gc"], "arena": case["arena"],
                          "steps": 200000 + 400 * nets.STARVE_BOUND})
        outcome["counters"]["vm_instructions"] = result["steps"]
        for clause, detail in nets.starve_check(result, case["starve"]):
            outcome["violations"].append({"clause": clause, "detail": detail + "\n" + program["files"][program["main"]],
                                          "case": copy.deepcopy(case), "explicit": copy.deepcopy(case)})
        outcome["sample"] = {"network": "fairness probe", "params": case["starve"]}
        return outcome

    def judge(self, ctx, case):
        if "starve" in case:
            return self.judge_starve(ctx, case)
        ir = case["ir"]
        outcome = {"jobs": 0, "violations": [], "signatures": [], "counters": {}}
        counters = outcome["counters"]
        if not nets.valid_zone(ir) and not case.get("pinned"):
            counters["outside_verdict_zone"] = 1
            return outcome
        allowed = nets.explore(ir)
        if allowed is not None and "error" in allowed:
            counters["model_error_outcome_skipped"] = 1
            return outcome
        if allowed is None:
            counters["model_state_cap_hit"] = 1
        program = nets.program(ir)
        operations = sum(len(script) for script in ir["scripts"]) + len(ir["main"]) + 2 * len(ir["scripts"]) + 4
        job = {"id": "net", "main": program["main"], "files": program["files"], "gc": case["gc"], "arena": case["arena"],
               "steps": 20000 + 10000 * operations}
        result = ctx.run(job)
        outcome["jobs"] = 1
        got = nets.classify(result)
        counters["outcome_" + got] = 1
        if allowed is not None:
            counters["model_allows_" + "/".join(sorted(allowed))] = 1
        if nets.determinate(ir):
            counters["determinate_networks"] = 1
        for name in ("fiber_block", "fiber_sleep", "fiber_unblock", "context_switch", "deadlock", "launch",
                     "fiber_queue_ignored", "gc_full", "gc_nursery"):
            if name in result["probes"]:
                counters["probe_" + name] = result["probes"][name]
        counters["vm_instructions"] = result["steps"]
        for op in ("close", "drain", "send_closed"):
            if any(o[0] == op for script in ir["scripts"] for o in script):
                counters["networks_with_" + op] = 1

        if self.own == "history":
            problems = []
            if got in ("complete", "deadlock"):
                problems = nets.check_history(result["stdout"], ir, got)
            elif got in ("crash", "host-panic"):
                # what was delivered before the failure is still judged
                problems = nets.check_history(result["stdout"], ir, got)
                panic = result.get("panic") or {}
                if panic.get("kind") in ("corrupt_header", "crash"):
                    # freed memory reached through a channel buffer, a parked sender or a received value
                    problems.append(("a buffered or received value was not intact (freed or corrupted memory reached through a channel)",
                                     core.host_failure(result)))
        else:
            problems = nets.check_progress(result, ir, got, allowed)
        for problem in core.memory_failure(result):
            if "layout_mismatch" not in problem and self.own == "history":
                problems.append(("memory monitor", problem))

        signature = nets.signature(result["stdout"])
        if len(signature) > 0 and (result["probes"].get("context_switch", 0) > 0):
            outcome["signatures"].append(signature)
        seen = set()
        for clause, detail in problems:
            if clause in seen:
                continue
            seen.add(clause)
            explicit = copy.deepcopy(case)
            if result["fired"] and case["gc"]["kind"] != "never":
                explicit["gc"] = {"kind": "list", "points": result["fired"]}
            outcome["violations"].append({
                "clause": clause,
                "detail": "%s | outcome %s, ideal model allows %s\n%s--- history ---\n%s" % (
                    detail, got, sorted(allowed) if allowed is not None else "?", program["files"][program["main"]],
                    result["stdout"][-1500:] + result["stderr"][-300:]),
                "case": copy.deepcopy(case), "explicit": explicit})
        outcome["sample"] = {"network": ir, "outcome": got, "ideal_model_allows": sorted(allowed) if allowed else None,
                             "interleaving": signature[:400], "schedule": case["gc"]["kind"]}
        return outcome

    def shrink_candidates(self, case, clause):
        if "starve" in case:
            return
        for ir in nets.shrink(case["ir"]):
            if not nets.valid_zone(ir) and not case.get("pinned"):
                continue
            candidate = copy.deepcopy(case)
            candidate["ir"] = ir
            yield candidate
        if case["gc"]["kind"] != "never":
            candidate = copy.deepcopy(case)
            candidate["gc"] = schedules.never()
            yield candidate

    def extra_coverage(self, merged):
        return {"distinct_interleavings": len(merged["signatures"]),
                "interleaving_measure": "distinct sequences of (fiber, operation, channel, nil/non-nil) records in the recorded history, among runs with at least one context switch"}


class C07(NetCheck):
    prop = "C07"
    own = "history"
    technique = "deterministic simulation: generated fiber/channel networks on the real scheduler, history checker over the recorded event sequence"
    rule = ("a case is a generated network (channels sync or capacity 1..4; 1..5 launched fibers as functions, lambdas, methods and "
            "capturing closures; straight-line scripts of send/receive/close/drain/send-after-close; patterns: random, fan-in/out, "
            "backlog-at-close, ping-pong, count-balanced) x collection schedule x address policy; distinct = distinct recorded interleavings "
            "(sequence of (fiber, op, channel, nil?) records); non-trivial = at least one context switch happened")
    assumptions = [
        "the program's own stdout is the history: a record is printed immediately after each operation returns and the VM switches fibers only inside channel operations and on completion",
        "order clause: per (sender, channel) the values appear in global receipt order in the order they were sent (holds for any FIFO whatever the enqueue interleaving)",
        "verdict zone: a channel is closed only by a fiber that has itself used it before the close (sends of other fibers into it are guarded by try/catch); no channel operations inside native callbacks (pinned known findings of C08)",
    ]


def factory():
    return C07()
