"""C13 - inline caches are transparent.

Oracle: the same execution with every inline cache lookup forced to miss (hook H5): the slow path is the
specification. The generator additionally knows, by construction, what every call site must return.
Schedule space: collection schedule x address policy with weight on eager reuse - a cache entry is a raw
class pointer, the interesting schedule is "collect the class, allocate another object of the same
layout at the same address, hit the site again".
"""
import copy

from . import core, schedules, workloads
from .runner import Check

FIELDS = ["p", "q", "r"]


def generate(r):
    lines = []
    expect = []
    static = []      # (name, field order, method tag)
    nstat = r.randint(1, 3)
    for i in range(nstat):
        order = r.sample(FIELDS, 3)
        init = " ".join("self.%s = base + %d;" % (f, j) for j, f in enumerate(order))
        # (buddy: a field that holds an instance of any other class; peekp/peekr read a field of that instance through self)
        lines.append("class S%d { init(base) { %s self.buddy = nil; } m() { 'S%d.m' } n(x) { x + self.p } static make(b) { S%d(b) } "
                     "peekp() { self.buddy.p } peekr() { self.buddy.r } }" % (i, init, i, i))
        static.append(("S%d" % i, order, "S%d.m" % i))
        if r.random() < 0.6:
            # (the last form assigns an inherited field again, with the value it already has, before it adds a field of its own)
            extra = r.choice(["", " init(base) { super.init(base); self.extra = base; }",
                              " init(base) { super.init(base); self.p = base + %d; self.extra = base + 77; }" % order.index("p")])
            lines.append("class T%d : S%d {%s m() { 'T%d.m>' + super.m() } }" % (i, i, extra, i))
            static.append(("T%d" % i, order, "T%d.m>S%d.m" % (i, i)))
            if r.random() < 0.5:
                lines.append("class U%d : T%d { m() { 'U%d.m>' + super.m() } n(x) { super.n(x) + 1000 } }" % (i, i, i))
                static.append(("U%d" % i, order, "U%d.m>T%d.m>S%d.m" % (i, i, i)))
    ndyn = r.randint(1, 3)
    dyn = []
    for i in range(ndyn):
        order = r.sample(FIELDS, 3)
        init = " ".join("self.%s = base + %d;" % (f, j) for j, f in enumerate(order))
        # a fresh class object per call, dropped afterwards; sometimes with a fresh subclass as well
        if r.random() < 0.4:
            lines.append("fn mk%d(base) { class D%d { init(base) { %s } m() { 'D%d.m' } n(x) { x + self.p } } class E%d : D%d { m() { 'E%d>' + super.m() } } E%d(base) }" % (
                i, i, init, i, i, i, i, i))
            dyn.append((order, "E%d>D%d.m" % (i, i)))
        else:
            lines.append("fn mk%d(base) { class D%d { init(base) { %s } m() { 'D%d.m' } n(x) { x + self.p } } D%d(base) }" % (i, i, init, i, i))
            dyn.append((order, "D%d.m" % i))
    lines.append("class Sh { init() { self.p = 7; self.q = 8; self.r = 9; self.m = || 'shadow'; } n(x) { x + self.p } }")
    lines.append("class Flip { init(shadow) { self.p = 3; self.q = 4; self.r = 5; if shadow { self.m = || 'flip-field'; } } n(x) { x + self.p } }")
    lines.append("class FlipM { init() { self.p = 3; self.q = 4; self.r = 5; } m() { 'flip-method' } n(x) { x + self.p } }")
    lines.append("fn callm(o) { o.m() }")
    lines.append("fn getp(o) { o.p }")
    lines.append("fn setq(o, v) { o.q = v; o.q }")
    lines.append("fn calln(o, x) { o.n(x) }")
    lines.append("fn bound(o) { let f = o.n; f(2) }")
    lines.append("fn incr(o) { o.r = o.r + 1; o.r += 1; o.r }")
    lines.append("fn garbage(k) { let acc = []; for i in k.times() { acc.push('g${i}' + 'x'); } acc.len() }")
    lines.append("fn classes(k) { for i in k.times() { class G { init() { self.p = 1; self.q = 2; self.r = 3; } m() { 'G' } n(x) { x } } G(); } k }")
    # a second module with call sites of its own (every module numbers its cache slots from zero)
    lines.insert(0, "import self.peer;")
    lines.insert(1, "import self.peer:{PBase};")
    # a class of this module extending a class of the other module, with super calls across the module boundary
    lines.insert(2, "class PS : PBase { m() { 'PS>' + super.m() } t() { 'PS.t>' + super.t() } u() { super.u() + 1 } }")
    # a method and a callable field of the same name in one class (inherited or own): the field wins whenever it is set
    lines.append("class MBase { m() { 'mbase-method' } }")
    lines.append("class Both : MBase { init(shadow) { self.p = 5; self.q = 6; self.r = 7; if shadow { self.m = || 'both-field'; } } n(x) { x + self.p } }")
    lines.append("class Own { init(shadow) { self.p = 5; self.q = 6; self.r = 7; if shadow { self.m = || 'own-field'; } } m() { 'own-method' } n(x) { x + self.p } }")
    # methods whose arity does not fit the shared sites: the site must fail every time it is reached, not only the first
    lines.append("class Ar1 { init() { self.p = 11; self.q = 12; self.r = 13; } m(a) { 'ar1.m' } n() { 5 } }")
    # a class factory: one declaration (one super site) evaluated with different superclasses
    lines.append("fn deco(base) { class Deco : base { m() { 'deco>' + super.m() } n(x) { super.n(x) + 5000 } } Deco }")
    # a module with more cache slots than any fixed table: several hundred by-name sites of each kind
    wide = r.random() < 0.08
    wide_property, wide_invoke = [], []
    if wide:
        for k in range(r.randint(258, 300)):
            field = r.choice(["p", "r"])
            wide_property.append(field)
            lines.append("fn w%d(o) { o.%s }" % (k, field))
        for k in range(r.randint(258, 300)):
            method = r.choice(["m", "n"])
            wide_invoke.append(method)
            lines.append("fn v%d(o) { o.%s }" % (k, "m()" if method == "m" else "n(1)"))
    header = len(lines)

    def receiver():
        kind = r.choice(["s", "s", "d", "d", "d", "sh", "flip", "flipm", "both", "own", "ps", "pbase", "ar", "deco", "deco"])
        base = r.randint(1, 50) * 10
        if kind == "ar":
            return "Ar1()", "ARITY", {"p": 11, "r": 13}, 0
        if kind == "deco":
            name, order, tag = r.choice(static)
            n_extra = 6000 if name.startswith("U") else 5000
            return "deco(%s)(%d)" % (name, base), "deco>" + tag, {"p": base + order.index("p"), "r": base + order.index("r")}, n_extra
        if kind == "s":
            name, order, tag = r.choice(static)
            expr = "%s(%d)" % (name, base) if r.random() < 0.8 or not name.startswith("S") else "%s.make(%d)" % (name, base)
            n_extra = 1000 if name.startswith("U") else 0
            return expr, tag, {"p": base + order.index("p"), "r": base + order.index("r")}, n_extra
        if kind == "d":
            i = r.randrange(ndyn)
            order, tag = dyn[i]
            return "mk%d(%d)" % (i, base), tag, {"p": base + order.index("p"), "r": base + order.index("r")}, 0
        if kind == "sh":
            return "Sh()", "shadow", {"p": 7, "r": 9}, 0
        if kind in ("both", "own"):
            shadow = r.random() < 0.6
            name = "Both" if kind == "both" else "Own"
            return "%s(%s)" % (name, "true" if shadow else "false"), ("%s-field" % name.lower() if shadow else None), {"p": 5, "r": 7}, 0
        if kind == "ps":
            return "PS(%d)" % base, "PS>PBase.m", {"p": base, "r": base + 2}, 0
        if kind == "pbase":
            return "PBase(%d)" % base, "PBase.m", {"p": base, "r": base + 2}, 0
        if kind == "flip":
            shadow = r.random() < 0.5
            return "Flip(%s)" % ("true" if shadow else "false"), ("flip-field" if shadow else None), {"p": 3, "r": 5}, 0
        return "FlipM()", "flip-method", {"p": 3, "r": 5}, 0

    for _ in range(r.randint(10, 45)):
        expr, tag, fields, n_extra = receiver()
        if r.random() < 0.35:
            lines.append("garbage(%d);" % r.choice([5, 50, 300]))
        if r.random() < 0.25:
            lines.append("classes(%d);" % r.choice([1, 3, 8]))
        site = r.choice(["m", "p", "q", "n", "mix", "bound", "incr", "peer", "peer", "launch", "launch", "peerm", "peerm", "buddy"])
        if site == "buddy":
            # a field of another object read through self.<field>.<name>: the other object's class decides where it is
            name, order, _ = r.choice(static)
            lines.append("if true { let host = %s(1); host.buddy = %s; print(host.peekp(), host.peekr(), host.p); }" % (name, expr))
            expect.append("%d %d %d" % (fields["p"], fields["r"], 1 + order.index("p")))
            continue
        if site == "peerm" and not (expr.startswith("PS(") or expr.startswith("PBase(")):
            site = "m"
        if wide and r.random() < 0.5 and tag not in (None, "ARITY", "shadow") and not tag.endswith("-field"):
            # two sites whose slot numbers are 256 apart, reached with the same class one after the other
            if r.random() < 0.5:
                k = r.randrange(len(wide_property) - 256)
                lines.append("if true { let o = %s; print(w%d(o), w%d(o), w%d(o)); }" % (expr, k, k + 256, k))
                expect.append("%d %d %d" % (fields[wide_property[k]], fields[wide_property[k + 256]], fields[wide_property[k]]))
            else:
                k = r.randrange(len(wide_invoke) - 256)
                value = {"m": tag, "n": str(1 + fields["p"] + n_extra)}
                lines.append("if true { let o = %s; print(v%d(o), v%d(o), v%d(o)); }" % (expr, k, k + 256, k))
                expect.append("%s %s %s" % (value[wide_invoke[k]], value[wide_invoke[k + 256]], value[wide_invoke[k]]))
            continue
        if tag == "ARITY":
            if site in ("m", "mix", "launch", "peerm"):
                lines.append("try { print(callm(%s)); } catch e: Error { print('arity'); }" % expr)
                expect.append("arity")
                continue
            if site in ("n", "bound"):
                lines.append("try { print(calln(%s, 1)); } catch e: Error { print('arity'); }" % expr)
                expect.append("arity")
                continue
        if site == "m":
            if tag is None:
                lines.append("try { print(callm(%s)); } catch e: Error { print('no m'); }" % expr)
                expect.append("no m")
            else:
                lines.append("print(callm(%s));" % expr)
                expect.append(tag)
        elif site == "p":
            lines.append("print(getp(%s));" % expr)
            expect.append(str(fields["p"]))
        elif site == "q":
            v = r.randint(1000, 1999)
            lines.append("print(setq(%s, %d));" % (expr, v))
            expect.append(str(v))
        elif site == "n":
            x = r.randint(1, 9)
            lines.append("print(calln(%s, %d));" % (expr, x))
            expect.append(str(x + fields["p"] + n_extra))
        elif site == "bound":
            lines.append("print(bound(%s));" % expr)
            expect.append(str(2 + fields["p"] + n_extra))
        elif site == "incr":
            lines.append("print(incr(%s));" % expr)
            expect.append(str(fields["r"] + 2))
        elif site == "peerm":
            # the other module's own invoke sites (several method names) on its base class and on this module's subclass
            if expr.startswith("PS("):
                lines.append("print(peer.callm(%s), peer.callt(%s), peer.callu(%s), peer.calln(%s, 1));" % ((expr,) * 4))
                expect.append("PS>PBase.m PS.t>PBase.t 8 %d" % (1 + fields["p"]))
            else:
                lines.append("print(peer.callm(%s), peer.callt(%s), peer.callu(%s), peer.calln(%s, 1));" % ((expr,) * 4))
                expect.append("PBase.m PBase.t 7 %d" % (1 + fields["p"]))
        elif site == "peer":
            # the same receiver through the other module's sites
            lines.append("print(peer.getr(%s), peer.getp(%s));" % (expr, expr))
            expect.append("%d %d" % (fields["r"], fields["p"]))
        elif site == "launch":
            # a function of the other module is launched, then a site of this module runs in the same frame with no
            # call or return in between
            lines.append("if true { let o = %s; let ch = chan(1); launch peer.signal(ch, o); print(o.p, o.r, <- ch); }" % expr)
            expect.append("%d %d %d" % (fields["p"], fields["r"], fields["r"]))
        else:
            if tag is None:
                continue
            lines.append("if true { let o = %s; print(callm(o), getp(o), calln(o, 1)); }" % expr)
            expect.append("%s %d %d" % (tag, fields["p"], 1 + fields["p"] + n_extra))
    peer = ("export class PBase { init(base) { self.p = base; self.q = base + 1; self.r = base + 2; } m() { 'PBase.m' } "
            "t() { 'PBase.t' } u() { 7 } n(x) { x + self.p } }\n"
            "export fn getr(o) { o.r }\nexport fn getp(o) { o.p }\nexport fn callt(o) { o.t() }\nexport fn callu(o) { o.u() }\n"
            "export fn callm(o) { o.m() }\nexport fn calln(o, x) { o.n(x) }\n"
            "export fn signal(ch, o) { ch <- o.r; }\n")
    program = workloads.program("classes", lines, {"/sim/peer.lay": peer})
    program["header"] = header
    return program, expect


def expected_output(program):
    """Recompute what the (possibly shrunk) program must print: every print line carries its expectation."""
    return None


class C13(Check):
    prop = "C13"
    level = "exploration"
    technique = "deterministic simulation: cache-enabled execution vs the same execution with every lookup forced to miss, under seeded GC schedules with eager address reuse"
    rule = ("a case is (generated class program, collection schedule, address policy); programs have static hierarchies (depth <= 3, "
            "differing field orders, super chains, static factories), classes created and dropped at run time (a fresh class object per "
            "call, optionally with a fresh subclass), fields shadowing methods, shadow/unshadow flips, and shared call / property-get / "
            "property-set / compound-assign / bound-method sites reached by seeded receiver sequences with garbage and class churn in "
            "between; distinct = distinct (program, fired schedule); non-trivial = at least one cache hit and one collection inside "
            "the program")
    assumptions = [
        "the forced-miss execution (every inline cache lookup returns 'miss', fills still happen) is the specification",
        "what each site must print is also known by construction of the program and is checked as a second oracle",
    ]

    def runs(self, tier):
        return 2500 if tier == "quick" else 150000

    def prepare(self, ctx):
        self.startup = self.startup_probe(ctx)

    def make(self, ctx, index):
        rng = core.rng_for(ctx.seed, "c13", index)
        program, expect = generate(rng)
        gc = schedules.random_schedule(rng, self.startup, self.startup + 2000)
        # a third of the programs are entered line by line at the prompt: every entry is compiled separately into the
        # same module and keeps extending that module's cache
        repl = rng.random() < 0.33
        if repl and rng.random() < 0.4:
            # at the prompt a failed import does not end the session: the modules loaded afterwards still get caches of their own
            program["files"]["/sim/badmod.lay"] = "export fn oops( { 1 }\n"
            program["lines"].insert(0, "import self.badmod;")
            program["files"][program["main"]] = "\n".join(program["lines"]) + "\n"
            program["header"] = program.get("header", 0) + 1
        return {"program": program, "expect": expect, "gc": gc, "arena": schedules.random_policy(rng, 0.7), "repl": repl}

    def judge(self, ctx, case):
        program = case["program"]
        outcome = {"jobs": 0, "violations": [], "signatures": [], "counters": {}}
        counters = outcome["counters"]
        base = {"main": program["main"], "files": program["files"], "gc": case["gc"], "arena": case["arena"]}
        if case.get("repl"):
            base["mode"] = "repl"
            base["stdin"] = [line + "\n" for line in program["lines"]]
            counters["programs_entered_at_the_prompt"] = 1
        cached = ctx.run(dict(base, id="cached"))
        missed = ctx.run(dict(base, id="forced-miss", force_miss=True))
        if case.get("repl"):
            for result in (cached, missed):
                result["stdout"] = result["stdout"].replace("laythe:> ", "")
        outcome["jobs"] = 2
        problems = []
        fail_cached, fail_missed = core.host_failure(cached), core.host_failure(missed)
        if fail_missed:
            counters["forced_miss_run_failed"] = 1
            if case.get("expect") is not None:
                # the program is valid by construction: a host failure is a failure of the sites whatever the switch says
                problems.append(("a class program ended in a host failure", fail_missed))
        if fail_cached and not fail_missed:
            problems.append(("host failure with caches enabled but not with every lookup forced to miss", fail_cached))
        elif not fail_cached and not fail_missed:
            difference = core.first_difference(core.observable(missed), core.observable(cached))
            if difference:
                problems.append(("behaviour with caches differs from behaviour with every lookup forced to miss", difference))
        for problem in core.memory_failure(cached):
            if "layout_mismatch" not in problem:
                problems.append(("memory monitor with caches enabled", problem))
        if case.get("expect") is not None and not fail_cached and cached["vmexit"] == "ok":
            lines = cached["stdout"].splitlines()
            if lines != case["expect"]:
                for number, (got, want) in enumerate(zip(lines + [None] * len(case["expect"]), case["expect"] + [None] * len(lines))):
                    if got != want:
                        problems.append(("a site returned something else than the program's construction prescribes",
                                         "output line %d is %r, expected %r" % (number, got, want)))
                        break
        hits = cached["probes"].get("cache_invoke_hit", 0) + cached["probes"].get("cache_property_hit", 0)
        counters["cache_hits"] = hits
        counters["cache_misses_filled"] = cached["probes"].get("cache_invoke_miss", 0) + cached["probes"].get("cache_property_miss", 0)
        counters["cache_cleared"] = cached["probes"].get("cache_cleared", 0)
        counters["forced_miss_run_hits"] = missed["probes"].get("cache_invoke_hit", 0) + missed["probes"].get("cache_property_hit", 0)
        counters["collections_fired"] = cached["fired_total"]
        counters["blocks_reused"] = cached["arena"].get("reused", 0)
        counters["policy_" + case["arena"].get("policy", "quarantine")] = 1
        counters["vm_instructions"] = cached["steps"] + missed["steps"]
        if hits > 0 and any(point[0] >= self.startup for point in cached["fired"]):
            outcome["signatures"].append("%x|%s" % (core.mix(program["files"][program["main"]]) & 0xFFFFFFFFFFFF,
                                                      schedules.hash_points(cached["fired"])))
        for clause, detail in problems:
            explicit = copy.deepcopy(case)
            if cached["fired"] and case["gc"]["kind"] not in ("never",):
                explicit["gc"] = {"kind": "list", "points": cached["fired"]}
            outcome["violations"].append({"clause": clause, "detail": detail, "case": copy.deepcopy(case), "explicit": explicit})
        outcome["sample"] = {"program_tail": program["lines"][-6:], "schedule": case["gc"]["kind"], "policy": case["arena"],
                             "cache_hits": hits, "collections": cached["fired_total"]}
        return outcome

    def shrink_candidates(self, case, clause):
        program = case["program"]
        header = program.get("header", 0)
        lines = program["lines"]
        # drop body statements only (each print line has exactly one expectation unless it is a helper call)
        body = list(range(header, len(lines)))
        size = len(body) // 2
        while size >= 1:
            for start in range(0, len(body), size):
                drop = set(body[start:start + size])
                candidate = copy.deepcopy(case)
                candidate["program"]["lines"] = [line for i, line in enumerate(lines) if i not in drop]
                candidate["program"]["files"][program["main"]] = "\n".join(candidate["program"]["lines"]) + "\n"
                candidate["expect"] = None
                yield candidate
            size //= 2


def factory():
    return C13()
