"""Driver side of the simulator: builds the workers from /repo's working tree, fans deterministic run
indices out to shard processes (one simulation worker process each), merges what they found, confirms
and minimises violations in fresh worker processes, writes replay and evidence files.

Everything random is derived from VERIF_SEED: run i of a check uses random.Random(mix(seed, tag, i)).
Run counts are fixed per tier, so the verdict is a function of (VERIF_SEED, tree) and does not depend
on the number of shards or on timing.
"""
import hashlib
import json
import multiprocessing
import os
import random
import re
import select
import signal
import subprocess
import sys
import time
import traceback

VERIF = os.path.dirname(os.path.dirname(os.path.abspath(__file__)))
# VERIF_SIM_DIR / VERIF_REPLAYS_DIR exist for testing the checks against a scratch copy of the repository
# (tools/eval_mutant.py); the registered commands never set them and always build from /repo.
SIM = os.environ.get("VERIF_SIM_DIR") or os.path.join(VERIF, "sim")
REPO = os.environ.get("VERIF_REPO_DIR") or "/repo"
EVIDENCE = os.path.join(VERIF, "evidence")
REPLAYS = os.environ.get("VERIF_REPLAYS_DIR") or os.path.join(VERIF, "replays")
KNOWN_FINDINGS = os.path.join(VERIF, "known_findings.json")

JOB_TIMEOUT = 20.0


class HarnessError(Exception):
    pass


def mix(*parts):
    """Derive a 64 bit seed from integers and strings (stable across processes and python versions)."""
    h = hashlib.sha256(repr(parts).encode()).digest()
    return int.from_bytes(h[:8], "little")


def rng_for(seed, tag, index):
    return random.Random(mix(seed, tag, index))


_HEX = re.compile(r"0x[0-9a-fA-F]{5,}")


def normalize(text):
    """Addresses are not part of a program's meaning."""
    return _HEX.sub("0xADDR", text)


# --- building ----------------------------------------------------------------------------------

def cargo_env():
    env = dict(os.environ)
    env["CARGO_NET_OFFLINE"] = "true"
    env.pop("RUSTFLAGS", None)
    return env


def build(nan=False, quiet=True):
    """Build the worker (always from /repo's current working tree through path dependencies)."""
    cmd = ["cargo", "build", "--release", "--offline"]
    target = os.path.join(SIM, "target_nan" if nan else "target")
    if nan:
        cmd += ["--features", "nan"]
    cmd += ["--target-dir", target]
    proc = subprocess.run(cmd, cwd=SIM, env=cargo_env(), stdout=subprocess.PIPE, stderr=subprocess.STDOUT, text=True)
    if proc.returncode != 0:
        sys.stderr.write(proc.stdout[-6000:])
        raise HarnessError("worker build failed (nan=%s)" % nan)
    binary = os.path.join(target, "release", "simworker")
    if not os.path.exists(binary):
        raise HarnessError("worker binary missing: " + binary)
    return binary


# --- one simulation worker process ---------------------------------------------------------------

class Worker:
    def __init__(self, binary):
        self.binary = binary
        self.proc = None
        self.jobs = 0
        self.restarts = 0

    def start(self):
        self.proc = subprocess.Popen(
            [self.binary], stdin=subprocess.PIPE, stdout=subprocess.PIPE, stderr=subprocess.DEVNULL, bufsize=0
        )
        self.buf = b""

    def stop(self):
        if self.proc is not None:
            try:
                self.proc.kill()
            except Exception:
                pass
            try:
                self.proc.wait(timeout=5)
            except Exception:
                pass
            self.proc = None

    def run(self, job, timeout=JOB_TIMEOUT):
        """Execute one job. A worker that dies or hangs is reported as a crash of that job. A job that exceeds the
        wall-clock backstop is executed once more in a fresh worker with six times the backstop before it counts as a
        hang, so that a loaded machine cannot change a verdict (the backstop is 10^4 times the normal cost of a job)."""
        result = self.run_once(job, timeout)
        if result.get("crash") == "timeout" and not getattr(self, "hang_confirmed", False):
            self.timeouts_retried = getattr(self, "timeouts_retried", 0) + 1
            result = self.run_once(job, timeout * 6)
            if result.get("crash") == "timeout":
                # a real hang on this tree: later timeouts of this worker are not given the long backstop again
                self.hang_confirmed = True
        return result

    def run_once(self, job, timeout):
        if self.proc is None or self.proc.poll() is not None:
            self.start()
        self.jobs += 1
        data = (json.dumps(job) + "\n").encode()
        try:
            self.proc.stdin.write(data)
            self.proc.stdin.flush()
        except (BrokenPipeError, OSError):
            return self._crashed("write failed")
        deadline = time.monotonic() + timeout
        fd = self.proc.stdout.fileno()
        while b"\n" not in self.buf:
            remaining = deadline - time.monotonic()
            if remaining <= 0:
                return self._crashed("timeout")
            ready, _, _ = select.select([fd], [], [], remaining)
            if not ready:
                return self._crashed("timeout")
            chunk = os.read(fd, 1 << 20)
            if not chunk:
                return self._crashed("eof")
            self.buf += chunk
        line, self.buf = self.buf.split(b"\n", 1)
        try:
            result = json.loads(line)
        except ValueError:
            return self._crashed("garbled answer")
        if "harness_error" in result:
            raise HarnessError(result["harness_error"])
        return result

    def _crashed(self, why):
        code = None
        if self.proc is not None:
            if why == "timeout":
                try:
                    self.proc.kill()
                except Exception:
                    pass
            try:
                code = self.proc.wait(timeout=10)
            except Exception:
                code = None
        self.stop()
        self.restarts += 1
        sig = None
        if code is not None and code < 0:
            try:
                sig = signal.Signals(-code).name
            except Exception:
                sig = str(-code)
        return {
            "crash": why,
            "signal": sig,
            "code": code,
            "exit": None,
            "vmexit": "crash",
            "panic": {"kind": "crash", "msg": "worker died: %s %s" % (why, sig or code)},
            "stdout": "",
            "stderr": "",
            "steps": 0,
            "allocs": 0,
            "fired": [],
            "fired_total": 0,
            "probes": {},
            "arena": {"errors": [], "error_count": 0, "leak": None, "allocs": 0, "frees": 0, "reused": 0, "used": 0},
            "acct": {"checks": 0, "violations": [], "samples": []},
            "marks": [],
            "fs_fired": [],
            "fs_log": [],
            "final": None,
            "read_lines": 0,
            "digest": "crash:%s:%s" % (why, sig or code),
        }


class Context:
    """What a check's run gets to work with inside a shard."""

    def __init__(self, binaries, seed, tier):
        self.binaries = binaries
        self.seed = seed
        self.tier = tier
        self.workers = {}
        self.digest = 0

    def worker(self, name="enum"):
        if name not in self.workers:
            self.workers[name] = Worker(self.binaries[name])
        return self.workers[name]

    def run(self, job, build="enum"):
        result = self.worker(build).run(job)
        # determinism witness: everything the worker computed for this run, folded in execution order
        self.digest = mix(self.digest, build, result.get("digest"))
        return result

    def begin_run(self):
        self.digest = 0

    def end_run(self):
        return "%016x" % self.digest

    def close(self):
        for worker in self.workers.values():
            worker.stop()
        self.workers = {}


# --- outcome helpers -----------------------------------------------------------------------------

def observable(result):
    """What a program's user can observe of a run."""
    return {
        "stdout": normalize(result["stdout"]),
        "stderr": normalize(result["stderr"]),
        "exit": result["exit"],
        "vmexit": result["vmexit"],
    }


def host_failure(result):
    """Did the run end in something no language level semantics explains."""
    if result.get("crash"):
        return "worker crashed (%s %s)" % (result["crash"], result.get("signal"))
    panic = result.get("panic")
    if panic:
        return "%s: %s%s" % (panic.get("kind"), panic.get("msg"), (" at " + panic["at"]) if panic.get("at") else "")
    return None


def memory_failure(result):
    """Invariant monitors of the memory seam."""
    problems = []
    arena = result.get("arena") or {}
    for error in arena.get("errors", []):
        problems.append("arena %s at %s (block #%s): allocated as %s, released as %s" % (
            error["kind"], error["address"], error["seq"], error["expected"], error["got"]))
    if arena.get("exhausted"):
        problems.append("arena exhausted")
    return problems


def first_difference(a, b):
    for key in ("vmexit", "exit", "stdout", "stderr"):
        if a[key] != b[key]:
            x, y = str(a[key]), str(b[key])
            n = 0
            while n < len(x) and n < len(y) and x[n] == y[n]:
                n += 1
            return "%s differs at offset %d: %r vs %r" % (key, n, x[max(0, n - 30):n + 50], y[max(0, n - 30):n + 50])
    return None


# --- sharded execution ---------------------------------------------------------------------------

def _shard_main(check_factory, binaries, seed, tier, indices, conn):
    signal.signal(signal.SIGINT, signal.SIG_IGN)
    ctx = Context(binaries, seed, tier)
    out = {"violations": [], "jobs": 0, "signatures": set(), "counters": {}, "samples": [], "errors": [], "runs": 0,
           "digests": {}}
    try:
        check = check_factory()
        check.prepare(ctx)
        for index in indices:
            try:
                ctx.begin_run()
                outcome = check.run_one(ctx, index)
                outcome["digest"] = mix(ctx.end_run(), sorted(v["clause"] for v in outcome.get("violations", [])),
                                        sorted(outcome.get("signatures", [])))
            except HarnessError:
                raise
            except Exception:
                out["errors"].append("run %d: %s" % (index, traceback.format_exc()))
                break
            out["runs"] += 1
            out["jobs"] += outcome.get("jobs", 0)
            if len(out["violations"]) >= 6:
                # the tree is broken for this property; the verdict is settled, do not burn hours on a flood
                out["counters"]["shards_stopped_early_after_6_violations"] = 1
                break
            for violation in outcome.get("violations", []):
                violation["run_index"] = index
                if len(out["violations"]) < 40:
                    out["violations"].append(violation)
            for signature in outcome.get("signatures", []):
                out["signatures"].add(signature)
            for key, value in outcome.get("counters", {}).items():
                out["counters"][key] = out["counters"].get(key, 0) + value
            if outcome.get("sample") is not None and len(out["samples"]) < 3:
                out["samples"].append(outcome["sample"])
            if outcome.get("digest") is not None:
                out["digests"][index] = outcome["digest"]
    except HarnessError as error:
        out["errors"].append("harness error: %s" % error)
    except Exception:
        out["errors"].append(traceback.format_exc())
    finally:
        restarts = sum(worker.restarts for worker in ctx.workers.values())
        out["counters"]["worker_restarts"] = out["counters"].get("worker_restarts", 0) + restarts
        ctx.close()
    out["signatures"] = sorted(out["signatures"])
    conn.send(out)
    conn.close()


def run_sharded(check_factory, binaries, seed, tier, indices, shards):
    """Run the given run indices on `shards` processes. Index i goes to shard i % shards; since every run
    derives all its choices from (seed, i) alone the merged result does not depend on `shards`."""
    shards = max(1, min(shards, len(indices)))
    procs = []
    for shard in range(shards):
        parent, child = multiprocessing.Pipe(duplex=False)
        mine = [index for position, index in enumerate(indices) if position % shards == shard]
        proc = multiprocessing.Process(target=_shard_main, args=(check_factory, binaries, seed, tier, mine, child))
        proc.start()
        child.close()
        procs.append((proc, parent))
    merged = {"violations": [], "jobs": 0, "signatures": set(), "counters": {}, "samples": [], "errors": [], "runs": 0,
              "digests": {}}
    for proc, parent in procs:
        try:
            out = parent.recv()
        except EOFError:
            out = {"violations": [], "jobs": 0, "signatures": [], "counters": {}, "samples": [],
                   "errors": ["a shard process died"], "runs": 0, "digests": {}}
        proc.join()
        merged["violations"] += out["violations"]
        merged["jobs"] += out["jobs"]
        merged["runs"] += out["runs"]
        merged["signatures"].update(out["signatures"])
        for key, value in out["counters"].items():
            merged["counters"][key] = merged["counters"].get(key, 0) + value
        merged["samples"] += out["samples"]
        merged["errors"] += out["errors"]
        merged["digests"].update(out["digests"])
    merged["violations"].sort(key=lambda violation: violation["run_index"])
    return merged


# --- replay files ----------------------------------------------------------------------------------

def write_replay(prop, name, data):
    directory = os.path.join(REPLAYS, prop)
    os.makedirs(directory, exist_ok=True)
    path = os.path.join(directory, name + ".json")
    with open(path, "w") as handle:
        json.dump(data, handle, indent=1, sort_keys=True)
        handle.write("\n")
    return path


def load_known_findings():
    if not os.path.exists(KNOWN_FINDINGS):
        return {"findings": []}
    with open(KNOWN_FINDINGS) as handle:
        return json.load(handle)


def write_evidence(prop, tier, seed, level, coverage, assumptions, wall, violations):
    os.makedirs(EVIDENCE, exist_ok=True)
    path = os.path.join(EVIDENCE, prop + ".json")
    record = {
        "property_id": prop,
        "tier": tier,
        "seed": seed,
        "level": level,
        "coverage": coverage,
        "assumptions": assumptions,
        "wall_s": round(wall, 3),
        "violations": violations,
    }
    tmp = path + ".tmp"
    with open(tmp, "w") as handle:
        json.dump(record, handle, indent=1, sort_keys=True)
        handle.write("\n")
    os.replace(tmp, path)
    return path
