"""C14 - both value representations implement the same language.

There is no schedule in this property; its quantifier is the build configuration. The simulator is built
twice (tagged-enum values, NaN-boxed values) and both builds are driven by identical jobs: same program,
same simulated world, same collection schedule (by allocation index) and address policy. What the simulator
adds over running the test-suite twice is that the NaN-boxed build's hand written tracing, pointer recovery,
equality and hashing are exercised under seeded collection schedules on the poisoning heap, on generated
workloads, and on numeric bit patterns reached by arithmetic.
"""
import copy

from . import allgens, core, corpus, schedules, workloads
from .runner import Check
from .c05 import base_job

CONSTS = ["0", "-0", "1", "-1", "0.5", "1e308", "1e-320", "5e-324", "9007199254740992", "9007199254740993", "0.1", "0.2",
          "3", "1/0", "-1/0", "0/0", "(0/0) * -1", "0 * -1", "1e308 * 10", "2.5", "-2.5", "4294967296", "-4294967297",
          "1e21", "1e-7", "255", "256"]


def numbers(r):
    lines = []
    names = []
    for i in range(r.randint(3, 9)):
        a, b = r.choice(CONSTS), r.choice(CONSTS)
        op = r.choice(["+", "-", "*", "/"])
        lines.append("let n%d = (%s) %s (%s);" % (i, a, op, b))
        names.append("n%d" % i)
    for _ in range(r.randint(6, 24)):
        a, b = r.choice(names), r.choice(names)
        kind = r.choice(["eq", "cmp", "map", "lhas", "str", "arith", "parse", "round", "thas", "mapget", "truth", "nested",
                         "mapprint"])
        if kind == "eq":
            lines.append("print(%s == %s, %s != %s);" % (a, b, a, b))
        elif kind == "cmp":
            lines.append("print(%s < %s, %s <= %s, %s > %s, %s >= %s);" % (a, b, a, b, a, b, a, b))
        elif kind == "map":
            lines.append("if true { let m = {}; m[%s] = 1; print(m.has(%s), m.len()); m[%s] = 2; print(m.len()); }" % (a, b, b))
        elif kind == "mapget":
            lines.append("if true { let m = {%s: 'a'}; print(m.get(%s), m.remove(%s), m.len()); }" % (a, b, a))
        elif kind == "mapprint":
            # iteration order of a map keyed by scalars is a function of the keys alone, so it is part of the
            # program's behaviour in both builds (maps keyed by objects are ordered by address and never printed)
            keys = [r.choice(names + ["true", "false", "nil", str(r.randint(0, 40)), "%d.5" % r.randint(0, 9)]) for _ in range(r.randint(2, 9))]
            lines.append("if true { let m = {}; %s print(m); for kv in m { print(kv[0]); } }" % " ".join(
                "m[%s] = %d;" % (key, number) for number, key in enumerate(keys)))
        elif kind == "lhas":
            lines.append("print([%s, 1].has(%s), [%s].index(%s));" % (a, b, a, b))
        elif kind == "thas":
            lines.append("print((%s, nil, true).has(%s), (%s, 2).index(%s));" % (a, b, a, b))
        elif kind == "str":
            lines.append("print(%s, '${%s}', %s.str());" % (a, a, a))
        elif kind == "arith":
            lines.append("print(%s + %s, %s * %s, -%s, %s / %s);" % (a, b, a, b, a, a, b))
        elif kind == "parse":
            lines.append("print(Number.parse(%s.str()) == %s);" % (a, a))
        elif kind == "round":
            lines.append("print(%s.floor(), %s.ceil(), %s.round());" % (a, a, a))
        elif kind == "truth":
            lines.append("print(%s ? 't' : 'f', !%s, %s && %s, %s || %s, %s == nil, %s == false);" % (a, a, a, b, a, b, a, a))
        else:
            lines.append("print([%s, [%s, (%s, {'k': %s}['k'])]], [%s] == [%s]);" % (a, b, a, b, a, b))
    return workloads.program("numbers", lines)


VALUES = ["nil", "true", "false", "0", "-0", "1", "-1", "2.5", "1e308 * 10", "0/0", "'str'", "''", "'é'", "[1, 2, 3]", "[]",
          "{}", "{1: 'a'}", "(1, 2)", "|| 1", "|a, b| a < b", "|a, b| a - b", "[3, 1, 2]", "'a,b'", "chan(1)", "Error('x')",
          "9007199254740993", "-2.5", "[nil, 1]", "(nil,)", "{'k': nil}", "1e21", "-2e19", "1e300", "0 * -1"]

CALLS = [
    "%s.sort(%s)", "%s.push(%s)", "%s.insert(%s, %s)", "%s.remove(%s)", "%s[%s]", "%s.has(%s)", "%s.index(%s)", "%s.slice(%s, %s)",
    "%s.get(%s)", "%s.remove(%s)", "%s.set(%s, %s)", "%s.iter().reduce(%s, %s)", "%s.iter().map(%s).list()",
    "%s.iter().filter(%s).list()", "%s.iter().take(%s).list()", "%s.iter().skip(%s).list()", "%s.iter().zip(%s.iter()).list()",
    "%s.iter().all(%s)", "%s.iter().any(%s)", "%s.split(%s).list()", "%s + %s", "%s - %s", "%s * %s", "%s / %s", "%s < %s",
    "%s == %s", "-%s", "!%s", "%s.str()", "%s.len()", "%s.times().take(3).list()", "%s.until(%s).take(3).list()", "Number.parse(%s)",
    "%s.floor()", "%s.upCase()", "%s.trim()", "%s()", "%s(%s)", "%s.close()", "%s.rev()", "%s.iter().first()", "%s.iter().last()",
    "[%s, %s].sort(%s)", "{%s: %s}.len()", "'${%s}'", "%s.iter().into(List.collect)", "%s.cls().name()", "%s && %s", "%s || %s",
    # (an absent key is named in the message of the error)
    "{1: 'a'}[%s]", "{'k': 1}[%s]", "{1: 'a'}.remove(%s)",
    "%s.message", "%s.pop()", "%s.clear()", "%s.cmp(%s)", "%s.round()", "%s.ceil()", "%s.downCase()", "%s.has(%s) == %s.has(%s)",
]


def misuse(r):
    """Built-ins applied to operands of every kind: results, error classes and messages must not depend on the value
    representation (no addresses are printed: closures, channels and errors only appear as receivers or arguments)."""
    lines = []
    for _ in range(r.randint(6, 20)):
        call = r.choice(CALLS)
        expr = call % tuple("(%s)" % r.choice(VALUES) for _ in range(call.count("%s")))
        lines.append("try { let v = %s; print(v.cls().name(), v.cls() == Closure || v.cls() == Channel || v.cls() == Error ? '-' : v); } "
                     "catch e: Error { print('err', e.cls().name(), e.message); }" % expr)
    return workloads.program("misuse", lines)


SIZES = [0, 1, 2, 3, 4, 5, 7, 8, 9, 15, 16, 17, 31, 33, 63, 65, 127, 129, 255, 256, 257, 300, 509, 510, 511, 512, 513, 600, 1020, 1021,
         1022, 1023, 1025, 1100]


def growth(r):
    """Lists that outgrow their block while other references to them exist. When a list moves is a function of the
    element count alone, so which aliases still compare equal afterwards must not depend on the size of a value."""
    lines = ["class B { init(v) { self.v = v; } }"]
    for i in range(r.randint(1, 3)):
        start = r.choice([0, 0, 1, 3, 4, 6, 8, 100, 256])
        kind = r.choice(["literal", "times", "filter", "map", "collect"])
        if kind == "literal" or start == 0:
            first = "[%s]" % ", ".join(str(k) for k in range(min(start, 8)))
        elif kind == "times":
            first = "%d.times().list()" % start
        elif kind == "filter":
            first = "%d.times().filter(|x| true).list()" % start
        elif kind == "map":
            first = "%d.times().map(|x| x + 1).list()" % start
        else:
            first = "%d.times().into(List.collect)" % start
        lines.append("let g%d = %s; let holder%d = [g%d]; let m%d = {}; m%d[g%d] = 1; let b%d = B(g%d);" % (i, first, i, i, i, i, i, i, i))
        lines.append("fn fill%d(l, n) { for k in n.times() { l.push(k); } print(l == g%d, l == holder%d[0], l == b%d.v, m%d.has(l), "
                     "holder%d.has(l), (l, 1).index(g%d), l.len()); }" % ((i,) * 7))
        lines.append("fn ins%d(l, n) { for k in n.times() { l.insert(0, k); } print(l == g%d, b%d.v == holder%d[0], l.len(), l[0]); }" % ((i,) * 4))
        for _ in range(r.randint(1, 4)):
            target = r.choice(["g%d" % i, "holder%d[0]" % i, "b%d.v" % i])
            lines.append("%s%d(%s, %d);" % (r.choice(["fill", "fill", "ins"]), i, target, r.choice(SIZES)))
            if r.random() < 0.4:
                lines.append("print(g%d == holder%d[0], g%d == b%d.v, m%d.has(g%d), g%d.len(), holder%d[0].len());" % ((i,) * 8))
    return workloads.program("growth", lines)


class C14(Check):
    prop = "C14"
    level = "exploration"
    builds = ("enum", "nan")
    technique = "deterministic simulation of both build configurations under identical seeds, workloads, collection schedules and io scripts; cross-build equality of observable behaviour"
    rule = ("a case is (program, collection schedule, address policy) executed by the tagged-enum worker and by the NaN-boxed worker; "
            "programs are the fixture corpus, generated workloads (pipelines, churn, fibers, classes, strings, networks) and generated "
            "numeric programs (arithmetic over -0, infinities, NaNs, subnormals, 2^53 neighbours through ==, ordering, map keys, "
            "has/index, formatting, parsing, rounding, truthiness), built-ins applied to operands of every kind, and lists growing past "
            "their block through aliases around power-of-two and page-size element counts; distinct = distinct (program, fired schedule); non-trivial = the "
            "program produced output and executed at least 20 instructions in both builds")
    assumptions = [
        "programs whose reference output changes under a pure address perturbation are compared on exit class only (Value is 16 bytes in one build and 8 in the other, so addresses differ)",
        "both workers are built from the same /repo working tree, differing only in the nan_boxing feature",
    ]

    def plan(self, tier):
        programs = corpus.load()
        plan = [("corpus", position) for position in range(len(programs))]
        if tier == "thorough":
            plan += [("corpus", position) for position in range(len(programs)) for _ in range(9)]
        plan += [("numbers", i) for i in range(1500 if tier == "quick" else 100000)]
        plan += [("generated", i) for i in range(1500 if tier == "quick" else 60000)]
        plan += [("misuse", i) for i in range(1000 if tier == "quick" else 60000)]
        plan += [("growth", i) for i in range(600 if tier == "quick" else 30000)]
        return plan

    def runs(self, tier):
        return len(self.plan(tier))

    def prepare(self, ctx):
        allgens.register_all()
        self.programs = corpus.load()
        self.the_plan = self.plan(ctx.tier)
        self.startup = self.startup_probe(ctx)

    def make(self, ctx, index):
        entry = self.the_plan[index]
        rng = core.rng_for(ctx.seed, "c14", index)
        if entry[0] == "corpus":
            program = self.programs[entry[1]]
        elif entry[0] == "numbers":
            program = numbers(rng)
        elif entry[0] == "misuse":
            program = misuse(rng)
        elif entry[0] == "growth":
            program = growth(rng)
        else:
            program = workloads.generate(rng)
        gc = schedules.never() if rng.random() < 0.3 else schedules.random_schedule(rng, self.startup, self.startup + 400, program.get("heavy", False))
        return {"program": program, "label": program["name"], "gc": gc, "arena": schedules.random_policy(rng, 0.3),
                "perturb": {"shift": rng.randrange(1, 64), "dummy_every": rng.choice([3, 5, 7])}}

    def judge(self, ctx, case):
        program = case["program"]
        outcome = {"jobs": 0, "violations": [], "signatures": [], "counters": {}}
        counters = outcome["counters"]
        job = base_job(program, "cfg")
        job["gc"] = case["gc"]
        job["arena"] = case["arena"]
        enum = ctx.run(job, "enum")
        boxed = ctx.run(job, "nan")
        outcome["jobs"] = 2
        fail_enum, fail_boxed = core.host_failure(enum), core.host_failure(boxed)
        problems = []
        if fail_enum and fail_boxed:
            counters["invalid_workload"] = 1
            counters["invalid:" + fail_enum[:90]] = 1
        elif fail_boxed:
            problems.append(("host failure in the NaN-boxed build only", fail_boxed))
        elif fail_enum:
            problems.append(("host failure in the tagged-enum build only", fail_enum))
        else:
            a, b = core.observable(enum), core.observable(boxed)
            if a != b:
                # is the program's output a function of addresses?
                other = base_job(program, "perturbed")
                other["gc"] = case["gc"]
                other["arena"] = dict(case["arena"], shift=case["perturb"]["shift"], dummy_every=case["perturb"]["dummy_every"])
                perturbed = ctx.run(other, "enum")
                outcome["jobs"] += 1
                if core.observable(perturbed) != a:
                    counters["address_sensitive_programs"] = 1
                    if (a["vmexit"], a["exit"]) != (b["vmexit"], b["exit"]):
                        problems.append(("exit status differs between the value representations",
                                         "%s/%s vs %s/%s" % (a["vmexit"], a["exit"], b["vmexit"], b["exit"])))
                else:
                    problems.append(("behaviour differs between the value representations",
                                     "enum vs NaN-boxed: " + core.first_difference(a, b)))
        for problem in core.memory_failure(boxed):
            if "layout_mismatch" not in problem:
                problems.append(("memory monitor in the NaN-boxed build", problem))
        counters["collections_fired_nan_build"] = boxed["fired_total"]
        counters["collections_fired_enum_build"] = enum["fired_total"]
        counters["vm_instructions"] = enum["steps"] + boxed["steps"]
        counters["family_" + case["label"].split("#")[0].split("/")[0]] = 1
        if enum["stdout"] and enum["steps"] >= 20 and boxed["steps"] >= 20:
            outcome["signatures"].append("%x|%s" % (core.mix(program["files"][program["main"]]) & 0xFFFFFFFFFFFF,
                                                      schedules.hash_points(boxed["fired"])))
        for clause, detail in problems:
            explicit = copy.deepcopy(case)
            if boxed["fired"] and case["gc"]["kind"] not in ("never", "native"):
                explicit["gc"] = {"kind": "list", "points": boxed["fired"]}
            outcome["violations"].append({"clause": clause, "detail": "%s: %s" % (case["label"], detail),
                                          "case": copy.deepcopy(case), "explicit": explicit})
        outcome["sample"] = {"program": case["label"], "source_head": program["files"][program["main"]][:300],
                             "schedule": case["gc"]["kind"], "enum_exit": enum["vmexit"], "nan_exit": boxed["vmexit"]}
        return outcome

    def shrink_candidates(self, case, clause):
        return workloads.shrink_program_candidates(case)


def factory():
    return C14()
