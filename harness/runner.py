"""Command line driver shared by all checks: ./check <property> [--tier quick|thorough] [--replay file]."""
import argparse
import copy
import json
import os
import sys
import time

from . import core


class BrokenRuntime(Exception):
    """The runtime cannot execute the empty program under the simulator."""


class Check:
    """Base class. A check turns run index i (plus the batch seed) into a *case*: a self contained dict
    holding the jobs to simulate and what its oracle needs. `judge` executes a case and returns an
    outcome; a replay file is nothing but a case, so replaying is judging it again in a fresh worker."""

    prop = None
    level = "exploration"
    builds = ("enum",)
    technique = "deterministic simulation"
    rule = ""
    assumptions = []
    components = {
        "real": ["scanner", "parser", "resolver", "compiler", "peephole pass", "interpreter", "fibers and channels",
                 "garbage collector", "every native in laythe_lib"],
        "stubbed_by_simulator": ["stdio", "file system", "environment", "clock", "heap under managed objects (arena)"],
        "not_run": ["laythe_native (real OS io)", "laythe/src/main.rs", "wasm bindings"],
    }

    def runs(self, tier):
        raise NotImplementedError

    def prepare(self, ctx):
        self.startup = self.startup_probe(ctx)

    def startup_probe(self, ctx):
        """Index of the first managed allocation at which a collection can run (after VM start-up). A runtime
        that cannot even run the empty program violates every property; that is reported as a violation."""
        result = ctx.run({"id": "startup", "files": {"/sim/main.lay": "nil;"}, "main": "/sim/main.lay",
                          "gc": {"kind": "every", "mode": "full"}})
        failure = core.host_failure(result)
        if failure or result["vmexit"] != "ok" or not result["fired"]:
            raise BrokenRuntime(failure or ("empty program ended with %s: %s" % (result["vmexit"], result["stderr"][:300])))
        return result["fired"][0][0]

    def make(self, ctx, index):
        raise NotImplementedError

    def judge(self, ctx, case):
        raise NotImplementedError

    def run_one(self, ctx, index):
        case = self.make(ctx, index)
        if case is None:
            return {"jobs": 0, "violations": [], "signatures": [], "counters": {"skipped": 1}}
        return self.judge(ctx, case)

    def shrink_candidates(self, case, violation):
        """Yield smaller cases (generic: nothing beyond the schedule, see minimise)."""
        return []

    def known_zone_note(self):
        return ""


def same_violation(violations, clause):
    for violation in violations:
        if violation["clause"] == clause:
            return violation
    return None


def ddmin(items, test):
    """Classic delta debugging on a list; `test(subset)` is true when the failure persists."""
    n = 2
    while len(items) >= 2:
        chunk = max(1, len(items) // n)
        subsets = [items[i:i + chunk] for i in range(0, len(items), chunk)]
        reduced = False
        for subset in subsets:
            if test(subset):
                items, n, reduced = subset, 2, True
                break
        if not reduced:
            for i in range(len(subsets)):
                complement = [x for j, subset in enumerate(subsets) if j != i for x in subset]
                if complement and test(complement):
                    items, n, reduced = complement, max(n - 1, 2), True
                    break
        if not reduced:
            if n >= len(items):
                break
            n = min(len(items), n * 2)
    if len(items) == 1 and test([]):
        items = []
    return items


def gc_jobs(case):
    """Every job dict inside a case that carries a collection schedule (found structurally)."""
    found = []

    def walk(node):
        if isinstance(node, dict):
            if "gc" in node and isinstance(node["gc"], dict) and "kind" in node["gc"]:
                found.append(node)
            for value in node.values():
                walk(value)
        elif isinstance(node, list):
            for value in node:
                walk(value)

    walk(case)
    return found


def minimise(check, ctx, case, clause, budget=400):
    """Shrink a failing case while the same oracle clause keeps failing. Every candidate is a complete
    re-execution. Order: explicit schedule (ddmin over fired collection points), then whatever structural
    candidates the check offers, then simpler memory policies."""
    spent = [0]
    deadline = time.time() + 120.0

    def fails(candidate):
        # bounded in replays and in wall-clock time (a candidate that hangs costs a whole job timeout)
        if spent[0] >= budget or time.time() > deadline:
            return False
        spent[0] += 1
        outcome = check.judge(ctx, candidate)
        return same_violation(outcome["violations"], clause) is not None

    best = case
    # 1. schedules
    for position, job in enumerate(gc_jobs(best)):
        gc = job["gc"]
        if gc.get("kind") != "list" or not gc.get("points"):
            continue

        def test(points, position=position):
            candidate = copy.deepcopy(best)
            gc_jobs(candidate)[position]["gc"] = {"kind": "list", "points": points}
            return fails(candidate)

        points = ddmin(list(gc["points"]), test)
        candidate = copy.deepcopy(best)
        gc_jobs(candidate)[position]["gc"] = {"kind": "list", "points": points}
        if fails(candidate):
            best = candidate

    # 2. structure
    progress = True
    while progress and spent[0] < budget:
        progress = False
        for candidate in check.shrink_candidates(best, clause):
            if fails(candidate):
                best = candidate
                progress = True
                break

    # 3. policies
    for position, job in enumerate(gc_jobs(best)):
        for policy in ("eager", "quarantine"):
            current = (job.get("arena") or {}).get("policy", "quarantine")
            if current == policy or current == "quarantine":
                continue
            candidate = copy.deepcopy(best)
            gc_jobs(candidate)[position]["arena"] = {"policy": policy}
            if fails(candidate):
                best = candidate
    return best, spent[0]


def explicit_schedules(check, ctx, violation, clause):
    """Replace a generated schedule by the list of collections that actually fired, when the failure
    survives that (it does unless the violation depends on the byte threshold arithmetic itself)."""
    explicit = violation.get("explicit")
    if explicit is not None:
        again = check.judge(ctx, explicit)
        if same_violation(again["violations"], clause):
            return explicit
    return violation["case"]


def main(check_factory, argv=None):
    check = check_factory()
    parser = argparse.ArgumentParser(prog="check " + check.prop)
    parser.add_argument("--tier", default=os.environ.get("VERIF_TIER", "quick"), choices=["quick", "thorough"])
    parser.add_argument("--seed", type=int, default=int(os.environ.get("VERIF_SEED", "1")))
    parser.add_argument("--workers", type=int, default=int(os.environ.get("VERIF_WORKERS", "16")))
    parser.add_argument("--runs", type=int, default=None, help="override the number of runs (exploration only)")
    parser.add_argument("--first", type=int, default=0, help="first run index")
    parser.add_argument("--replay", default=None)
    parser.add_argument("--no-minimise", action="store_true")
    parser.add_argument("--selftest-determinism", action="store_true",
                        help="run every index twice on different shards and compare digests")
    parser.add_argument("--no-evidence", action="store_true")
    parser.add_argument("--dump-digests", default=None, help="write {run index: digest} to this file")
    args = parser.parse_args(argv)

    started = time.time()
    try:
        binaries = {}
        for name in check.builds:
            binaries[name] = core.build(nan=(name == "nan"))
    except core.HarnessError as error:
        print("HARNESS-ERROR: %s" % error)
        return 2

    if args.replay:
        return replay_main(check, binaries, args)

    # a runtime that cannot run the empty program is broken for every property
    ctx = core.Context(binaries, args.seed, args.tier)
    try:
        check.startup_probe(ctx)
    except BrokenRuntime as error:
        path = core.write_replay(check.prop, "startup-seed%d" % args.seed, {
            "property": check.prop, "clause": "the runtime cannot execute the empty program", "detail": str(error),
            "seed": args.seed, "run_index": -1, "case": {"kind": "startup"}})
        print("VIOLATION property=%s replay=%s" % (check.prop, os.path.relpath(path, core.VERIF)))
        print("  clause: the runtime cannot execute the empty program")
        print("  detail: %s" % str(error)[:600])
        return 1
    except core.HarnessError as error:
        print("HARNESS-ERROR: %s" % error)
        return 2
    finally:
        ctx.close()

    known = [f for f in core.load_known_findings().get("findings", []) if f.get("property") == check.prop]

    # pinned known findings are re-run on every invocation
    ctx = core.Context(binaries, args.seed, args.tier)
    known_lines = []
    regressions = []
    regress_runs = 0
    harness_problem = None
    try:
        check.prepare(ctx)
        for finding in known:
            if finding.get("status") != "known":
                continue
            path = os.path.join(core.VERIF, finding["replay"])
            with open(path) as handle:
                case = json.load(handle)["case"]
            outcome = check.judge(ctx, case)
            if same_violation(outcome["violations"], finding["clause"]):
                known_lines.append("KNOWN-FINDING: property=%s %s" % (check.prop, finding["what"]))
            else:
                known_lines.append("NOTE: known finding no longer reproduces: %s" % finding["what"])
        # cases of repaired defects (replays/regress/<id>-*.json) are replayed first: a returning defect is reported
        # with the replay that found it the first time
        regress_dir = os.path.join(core.VERIF, "replays", "regress")
        # (VERIF_NO_REGRESS: tools/eval_mutant.py evaluating a seeded change on an older commit that lacks the repairs)
        for name in sorted(os.listdir(regress_dir)) if os.path.isdir(regress_dir) and not os.environ.get("VERIF_NO_REGRESS") else []:
            if not (name.startswith(check.prop + "-") and name.endswith(".json")):
                continue
            with open(os.path.join(regress_dir, name)) as handle:
                record = json.load(handle)
            outcome = check.judge(ctx, record["case"])
            regress_runs += 1
            if outcome["violations"]:
                first = outcome["violations"][0]
                regressions.append((first["clause"], os.path.join(regress_dir, name), first["detail"]))
    except core.HarnessError as error:
        harness_problem = str(error)
    finally:
        ctx.close()
    if harness_problem:
        print("HARNESS-ERROR: %s" % harness_problem)
        return 2

    count = args.runs if args.runs is not None else check.runs(args.tier)
    indices = list(range(args.first, args.first + count))

    merged = core.run_sharded(check_factory, binaries, args.seed, args.tier, indices, args.workers)
    if merged["errors"]:
        for error in merged["errors"][:5]:
            print("HARNESS-ERROR: %s" % error)
        return 2

    if args.dump_digests:
        with open(args.dump_digests, "w") as handle:
            json.dump({str(k): v for k, v in sorted(merged["digests"].items())}, handle, indent=0, sort_keys=True)

    if args.selftest_determinism:
        again = core.run_sharded(check_factory, binaries, args.seed, args.tier, indices, max(1, args.workers // 2 - 1))
        differing = [i for i in indices if merged["digests"].get(i) != again["digests"].get(i)]
        print("determinism: %d runs executed twice (%d and %d shards), %d digests differ %s" % (
            len(indices), args.workers, max(1, args.workers // 2 - 1), len(differing), differing[:10]))
        return 2 if differing else 0

    # confirm, make explicit and minimise in a fresh worker; report
    reported = list(regressions)
    if merged["violations"]:
        ctx = core.Context(binaries, args.seed, args.tier)
        try:
            check.prepare(ctx)
            seen_clauses = {}
            for violation in merged["violations"]:
                clause = violation["clause"]
                if seen_clauses.get(clause, 0) >= 2:
                    continue
                case = violation["case"]
                outcome = check.judge(ctx, case)
                confirmed = same_violation(outcome["violations"], clause)
                if not confirmed:
                    print("HARNESS-ERROR: violation of run %d (%s) did not reproduce in a fresh worker: %s" % (
                        violation["run_index"], clause, violation["detail"][:300]))
                    return 2
                seen_clauses[clause] = seen_clauses.get(clause, 0) + 1
                case = explicit_schedules(check, ctx, violation, clause)
                spent = 0
                # (a hang costs a whole wall-clock backstop per candidate: reported as found, not minimised)
                if not args.no_minimise and "timeout" not in confirmed["detail"]:
                    case, spent = minimise(check, ctx, case, clause)
                final = same_violation(check.judge(ctx, case)["violations"], clause)
                name = "%s-seed%d-run%d" % (clause.replace(" ", "_").replace("/", "_")[:40], args.seed, violation["run_index"])
                path = core.write_replay(check.prop, name, {
                    "property": check.prop,
                    "clause": clause,
                    "detail": final["detail"] if final else confirmed["detail"],
                    "seed": args.seed,
                    "run_index": violation["run_index"],
                    "minimisation_replays": spent,
                    "case": case,
                })
                reported.append((clause, path, (final or confirmed)["detail"]))
        finally:
            ctx.close()

    wall = time.time() - started
    for line in known_lines:
        print(line)
    for clause, path, detail in reported:
        print("VIOLATION property=%s replay=%s" % (check.prop, os.path.relpath(path, core.VERIF)))
        print("  clause: %s" % clause)
        print("  detail: %s" % detail[:600])

    if not args.no_evidence:
        coverage = {
            "evaluations": merged["jobs"],
            "distinct_nontrivial": len(merged["signatures"]),
            "rule": check.rule,
            "samples": merged["samples"][:3] or ["(no sample recorded)"],
            "runs": merged["runs"],
            "runs_per_hour": int(merged["runs"] / max(wall, 1e-3) * 3600),
            "simulated_executions_per_hour": int(merged["jobs"] / max(wall, 1e-3) * 3600),
            "counters": dict(sorted(merged["counters"].items())),
            "components": check.components,
            "known_findings_rerun": known_lines,
            "regression_replays": regress_runs,
            "first_run_index": args.first,
        }
        coverage.update(check.extra_coverage(merged) if hasattr(check, "extra_coverage") else {})
        core.write_evidence(check.prop, args.tier, args.seed, check.level, coverage, check.assumptions, wall, len(reported))

    print("%s %s: %d runs, %d simulated executions, %d distinct non-trivial, %d violations, %.1fs" % (
        check.prop, args.tier, merged["runs"], merged["jobs"], len(merged["signatures"]), len(reported), wall))
    return 1 if reported else 0


def replay_main(check, binaries, args):
    with open(args.replay) as handle:
        record = json.load(handle)
    ctx = core.Context(binaries, record.get("seed", 1), "quick")
    try:
        if record["case"].get("kind") == "startup":
            try:
                check.startup_probe(ctx)
                outcome = {"violations": []}
            except BrokenRuntime as error:
                outcome = {"violations": [{"clause": record["clause"], "detail": str(error)}]}
        else:
            check.prepare(ctx)
            outcome = check.judge(ctx, record["case"])
    except core.HarnessError as error:
        print("HARNESS-ERROR: %s" % error)
        return 2
    finally:
        ctx.close()
    violation = same_violation(outcome["violations"], record["clause"])
    if violation:
        print("VIOLATION property=%s replay=%s" % (check.prop, args.replay))
        print("  clause: %s" % violation["clause"])
        print("  detail: %s" % violation["detail"][:2000])
        return 1
    others = outcome["violations"]
    if others:
        print("replay did not reproduce clause %r but reports: %s" % (record["clause"], others[0]["clause"]))
        return 1
    print("replay passes: no violation")
    return 0
