"""C20 - garbage is reclaimed and heap accounting is exact after a full collection.

The simulator's arena keeps its own books (address, size, alignment, liveness of every managed block) and
never shares them with the runtime. Invariants, evaluated by the worker at the first quiescent point after
every collection (entry of the next allocation) and at the end of the run:
  1. every release of a managed block carries the size and alignment it was obtained with; no double or
     foreign release                                                               (continuous)
  2. bytes_allocated == sum of size() over everything the allocator owns, and every owned block is a
     live arena block of exactly that size
  3. the set of live arena blocks == the set of owned blocks; after a full collection the intern table
     holds exactly the owned strings and every key is the text of its string
  4. a full collection directly after a full collection frees nothing and changes no counter
  5. bounded memory: in a loop that keeps a bounded set alive, the live size (blocks, bytes, interned
     strings) after the full collection at each phase marker does not rise in a sustained way (it may
     fluctuate: the conservative stack scan, the last caught error and inline caches hold bounded floating
     garbage, and vectors owned by a fiber grow once)
  6. under the shipped byte threshold policy next_gc == 2 x live bytes after every collection
  7. when the VM is dropped every block has been released exactly once (arena empty)
  9. under the shipped byte threshold policy the byte count does not stay above the threshold for hundreds of allocations
     without a collection (also in phases that allocate no object at all); invariant 2 is additionally evaluated at the
     entry of every n-th allocation, not only after collections
  10. between full collections the heap does not drift away from the live size: after any nursery collection under the
     shipped threshold policy no more than 16 x (bytes alive at the latest full collection) + 1 MiB are in use
  11. what managed objects and the VM obtain outside the managed heap is given back: the bytes still held from the system
     allocator after the VM was dropped are the same for n and 4 n iterations of a churn loop
  8. a program that ends normally leaves no temporary root behind: the number of temporary roots at the end of
     the run equals the number right after VM start-up (natives push and pop them in pairs, also on error paths)
"""
import copy

from . import allgens, core, corpus, schedules, workloads
from .runner import Check
from .c05 import base_job

KINDS = ["Channel", "Class", "Closure", "Enumerator", "Fun", "Instance", "List", "Map", "Method", "Native", "String",
         "LyBox", "Tuple"]

GARBAGE = [
    "let l = [i, i + 1, 'g']; l.push(l.len());",
    "let m = {'a': [i], 'b': {'c': i}}; m['d'] = m.len();",
    "let o = Item(i); o.data.push(o.name);",
    "let f = |x| { let y = [x, i]; || y }; f(1)();",
    "let a = Pair(nil, nil); let b = Pair(a, nil); a.left = b; b.right = a;",
    "let t = (i, [i], 'tuple');",
    "let s = 'x' + 'y' + 'long string that is certainly not interned as a literal' + 'z';",
    "try { raise Error('e'); } catch e: Error { let m = e.message; }",
    "let it = [1, 2, 3].iter().map(|x| [x]).filter(|x| x.len() > 0).list();",
    "let bm = Item(i).describe; bm();",
    "let grown = []; for k in 9.times() { grown.push([k]); }",
    "let parts = 'a,b,c,d'.split(',').list(); let up = parts[0].upCase();",
    "let boxed = 0; let inc = || { boxed = boxed + 1; boxed }; inc(); inc();",
    "let sorted = [3, 1, 2].sort(|a, b| { let t = [a, b]; a - b });",
    "class Local { init() { self.v = [1]; } get() { self.v } } Local().get();",
    "try { [1, 2, 3].iter().reduce([i], |acc, x| { if x == 2 { raise Error('in reduce'); } [acc, x] }); } catch e: Error { let m = e.message; }",
    "try { [3, 1, 2].iter().map(|x| [x]).filter(|x| { if x[0] == 1 { raise Error('in filter'); } true }).list(); } catch e: Error { let m = e.message; }",
    "try { [[1], [2]].iter().each(|x| { x.push(i); [][1]; }); } catch e: IndexError { let m = e.message; }",
]

# a fixed set of mailboxes served round robin by the one long lived fiber: it uses more channels than any small window
# remembers, and it uses each of them again and again
MAILBOXES = "let slot = i * 5; for k in 4.times() { let n = slot + k; let box = mail[n - (n / 12).floor() * 12]; box <- n; <- box; }"

# short lived objects of several kilobytes (a list grown to a few hundred elements, a string of several thousand bytes)
BIG_GARBAGE = [
    "let big = []; for k in 300.times() { big.push(k); }",
    "let wide = 700.times().list(); wide.push(1);",
    "let text = ''; for k in 70.times() { text = text + 'sixty four bytes of text that make this string long enough ......'; }",
]

# a rolling window: every entry survives a few dozen iterations (long enough to be promoted) and is then replaced
WINDOW = "window[i - (i / 40).floor() * 40] = [i, 'w${i}', 120.times().list()];"

CHANNEL_GARBAGE = "let ch = chan(2); ch <- [i, 'payload']; ch <- [i];"


def churn_program(rng, kept, uniq, phases, with_channels=False, big=False):
    picks = rng.sample(GARBAGE, rng.randint(2, 7))
    if rng.random() < 0.3:
        picks.append(MAILBOXES)
    if big:
        picks += rng.sample(BIG_GARBAGE, rng.randint(1, 3))
        if rng.random() < 0.6:
            picks.append(WINDOW)
    if with_channels:
        picks.append(CHANNEL_GARBAGE)
    body = " ".join("if true { %s }" % statement for statement in picks)
    lines = [
        "class Item { init(i) { self.i = i; self.name = 'item'; self.data = [i, i]; } describe() { self.name } }",
        "class Pair { init(l, r) { self.left = l; self.right = r; } }",
        "fn garbage(i) { %s 1 }" % body,
        "let mail = []; for k in 12.times() { mail.push(chan(1)); }",
        "let window = []; for k in 40.times() { window.push(nil); }",
        "let kept = [];",
        "for i in %d.times() { kept.push(Item(i)); }" % kept,
        "let uniq = [];",
        "for i in %d.times() { uniq.push('unique-string-' + 'u' * 0 + i.str()); }" % uniq,
        "let total = 0;",
        "for i in %d.times() { print('#p'); let pad = [0]; total = total + garbage(i); }" % phases,
        "print('#end');",
        "let pad = [0];",
        "print(total, kept.len(), uniq.len());",
    ]
    # 'u' * 0 is not valid laythe, keep the line simple instead
    lines[8] = "for i in %d.times() { uniq.push('unique-string-' + i.str()); }" % uniq
    return {"name": "churn-loop", "main": workloads.MAIN, "files": {workloads.MAIN: "\n".join(lines) + "\n"},
            "garbage": picks}


class C20(Check):
    prop = "C20"
    level = "exploration"
    technique = "deterministic simulation: conservation invariants between the allocator's books and the simulated heap's independent books, under seeded nursery/full collection interleavings"
    rule = ("a case is (program, collection schedule, address policy) run with the accounting monitor on; programs are the "
            "fixture corpus, generated workloads and generated churn loops with phase markers; schedules interleave nursery "
            "and full collections (every/bernoulli/burst/periodic/native threshold/explicit double-full points); distinct = "
            "distinct (program, fired schedule); non-trivial = at least one collection fired after start-up and at least one "
            "accounting evaluation took place")
    assumptions = [
        "the arena's side table (size, alignment, liveness per block) is the independent truth about what is allocated",
        "invariants are evaluated at quiescent points only (entry of the next allocation after a collection, end of run): inside a collection the object being allocated exists but is not yet published",
        "steady state is compared from phase 2 on (inline caches, stack growth and interned literals settle in the first iterations)",
        "creating channels inside the steady-state loop is excluded by construction (known finding: Fiber::channels retention)",
    ]

    def __init__(self):
        self.programs = None

    def plan(self, tier):
        programs = corpus.load()
        plan = []
        per_program = 2 if tier == "quick" else 30
        for position in range(len(programs)):
            for repeat in range(per_program):
                plan.append(("books", position, repeat))
        for number in range(800 if tier == "quick" else 40000):
            plan.append(("generated", number))
        for number in range(300 if tier == "quick" else 12000):
            plan.append(("steady", number))
        for number in range(60 if tier == "quick" else 3000):
            plan.append(("nonobject", number))
        for number in range(40 if tier == "quick" else 2000):
            plan.append(("drift", number))
        for number in range(40 if tier == "quick" else 2000):
            plan.append(("unmanaged", number))
        return plan

    def runs(self, tier):
        return len(self.plan(tier))

    def prepare(self, ctx):
        allgens.register_all()
        self.programs = corpus.load()
        self.the_plan = self.plan(ctx.tier)
        self.startup = self.startup_probe(ctx)
        probe = ctx.run({"id": "roots", "files": {"/sim/main.lay": "nil;"}, "main": "/sim/main.lay", "gc": schedules.never(),
                         "final_gc": True})
        self.baseline_roots = (probe.get("final") or {}).get("temp_roots")

    def make(self, ctx, index):
        entry = self.the_plan[index]
        rng = core.rng_for(ctx.seed, "c20", index)
        if entry[0] == "steady":
            kept = rng.randint(0, 12)
            return {"kind": "steady", "seed": rng.getrandbits(48), "kept": kept, "delta": rng.randint(1, 5),
                    "uniq": rng.randint(0, 8), "phases": rng.randint(90, 140),
                    "nursery": rng.choice([None, 2, 8, 64]), "arena": schedules.random_policy(rng, 0.5),
                    "channels": False, "label": "churn-loop"}
        if entry[0] == "unmanaged":
            # what managed objects and the VM obtain outside the managed heap (tables of classes and maps, vectors of
            # fibers, ...) is given back by the time the VM is gone, however long the program ran
            return {"kind": "unmanaged", "seed": rng.getrandbits(48), "kept": rng.randint(0, 12), "uniq": rng.randint(0, 8),
                    "phases": rng.randint(60, 160), "threshold": rng.choice([1 << 14, 1 << 16, 1 << 18]),
                    "arena": schedules.random_policy(rng, 0.5), "label": "churn-loop-quiet"}
        if entry[0] == "drift":
            # large short lived objects under the shipped threshold policy with a small first threshold: many nursery
            # collections between full ones
            return {"kind": "drift", "seed": rng.getrandbits(48), "kept": rng.randint(0, 12), "uniq": rng.randint(0, 8),
                    "phases": rng.randint(250, 500), "threshold": rng.choice([1 << 15, 1 << 16, 1 << 18]),
                    "arena": schedules.random_policy(rng, 0.5), "label": "churn-loop-big"}
        if entry[0] == "nonobject":
            # a phase that allocates no object at all (fibers, stacks, frames and waiters only; numbers as arguments): the
            # shipped byte threshold policy still has to collect, the dead fibers are garbage
            rounds = rng.randint(800, 3000)
            lines = ["fn noop(a, b) { a + b }", "fn sink(c) { while true { <- c; } }", "let TICK = chan();", "launch sink(TICK);",
                     "let total = 0;",
                     "for i in %d.times() { launch noop(i, %d); TICK <- 0; total = total + 1; }" % (rounds, rng.randint(1, 9)),
                     "print(total);"]
            program = workloads.program("nonobject-phase", lines)
            return {"kind": "books", "program": program, "label": program["name"],
                    "gc": schedules.native(rng.choice([1 << 12, 1 << 14, 1 << 16])), "arena": schedules.random_policy(rng, 0.5),
                    "acct_every": rng.choice([0, 0, 97])}
        if entry[0] == "books":
            program = self.programs[entry[1]]
        else:
            program = workloads.generate(rng)
        gc = schedules.random_schedule(rng, self.startup, self.startup + 300, program.get("heavy", False))
        if rng.random() < 0.25:
            # explicit double-full collections at seeded points
            points = sorted(set(self.startup + rng.randrange(0, 120) for _ in range(rng.randint(1, 5))))
            gc = schedules.points([(point, schedules.FULL_TWICE) for point in points])
        # besides the quiescent points after collections, the books are also compared at the entry of every n-th allocation
        return {"kind": "books", "program": program, "label": program["name"], "gc": gc,
                "arena": schedules.random_policy(rng, 0.5),
                "acct_every": 0 if program.get("heavy") else rng.choice([0, 1, 7, 31])}

    def judge(self, ctx, case):
        if case["kind"] == "steady":
            return self.judge_steady(ctx, case)
        if case["kind"] == "drift":
            return self.judge_drift(ctx, case)
        if case["kind"] == "unmanaged":
            return self.judge_unmanaged(ctx, case)
        return self.judge_books(ctx, case)

    def judge_unmanaged(self, ctx, case):
        """Invariant 11: the bytes the process holds from the system allocator after the VM has been dropped do not depend
        on how long the program ran. The same churn loop is run for n and for 4 n iterations in 'quiet' jobs (output,
        markers and schedule records are not kept, so the worker's own memory is constant)."""
        outcome = {"jobs": 2, "violations": [], "signatures": [], "counters": {"unmanaged_runs": 1}}
        held = []
        program = None
        for factor in (1, 4):
            rng = core.rng_for(case["seed"], "program", 0)
            program = case.get("program_override") or churn_program(rng, case["kept"], case["uniq"], case["phases"] * factor, False,
                                                                     rng.random() < 0.3)
            job = base_job(program, "unmanaged")
            job["gc"] = schedules.native(case["threshold"])
            job["arena"] = case["arena"]
            job["quiet"] = True
            job["steps"] = 400000000
            result = ctx.run(job)
            if core.host_failure(result) or result["vmexit"] != "ok":
                outcome["counters"]["invalid_workload"] = 1
                return outcome
            held.append(result["arena"]["system_bytes_not_returned"])
            outcome["counters"]["collections_fired"] = outcome["counters"].get("collections_fired", 0) + result["fired_total"]
            outcome["counters"]["vm_instructions"] = outcome["counters"].get("vm_instructions", 0) + result["steps"]
            leak = (result.get("arena") or {}).get("leak")
            if leak is not None and leak["blocks"] != 0:
                outcome["violations"].append({"clause": "blocks still allocated after the VM was dropped",
                                              "detail": "%d blocks / %d bytes live after drop" % (leak["blocks"], leak["bytes"]),
                                              "case": copy.deepcopy(case)})
        outcome["signatures"].append("unmanaged|%x" % case["seed"])
        if held[1] - held[0] > 4096:
            outcome["violations"].append({
                "clause": "memory obtained outside the managed heap is not given back",
                "detail": "churn-loop-quiet (garbage %s): %d bytes from the system allocator are still held after the VM was dropped when the "
                          "loop ran %d times, %d bytes when it ran %d times" % (program.get("garbage"), held[0], case["phases"], held[1],
                                                                               case["phases"] * 4),
                "case": copy.deepcopy(case)})
        outcome["sample"] = {"program_head": program["files"][program["main"]][:300], "system_bytes_not_returned": held}
        return outcome

    def judge_drift(self, ctx, case):
        """Invariant 10: between full collections the heap does not drift away from the live size. After a nursery
        collection the runtime holds what the latest full collection found alive, what was promoted since (bounded by what
        was alive at those few collections) and nothing else: more than sixteen times the live size plus 1 MiB means
        garbage is being kept from one collection to the next."""
        rng = core.rng_for(case["seed"], "program", 0)
        program = case.get("program_override") or churn_program(rng, case["kept"], case["uniq"], case["phases"], False, True)
        job = base_job(program, "drift")
        job["gc"] = schedules.native(case["threshold"])
        job["arena"] = case["arena"]
        job["acct"] = True
        job["final_gc"] = True
        job["watch_from"] = self.startup
        result = ctx.run(job)
        outcome = {"jobs": 1, "violations": [], "signatures": [], "counters": {}}
        counters = outcome["counters"]
        if core.host_failure(result) or result["vmexit"] != "ok":
            counters["invalid_workload"] = 1
            return outcome
        problems = self.monitor_problems(result)
        last_full = None
        worst = 0.0
        nursery_after_full = 0
        for sample in result["acct"]["samples"]:
            if sample.get("sampled"):
                continue
            if sample["full"]:
                last_full = sample["live_bytes"]
            elif last_full is not None:
                nursery_after_full += 1
                worst = max(worst, sample["live_bytes"] / float(max(last_full, 1)))
                if sample["live_bytes"] > 16 * last_full + (1 << 20):
                    problems.append(("garbage survives from one collection to the next: the heap drifts away from the live size",
                                     "%d bytes in use after the nursery collection at allocation %d, %d bytes were alive at the "
                                     "latest full collection" % (sample["live_bytes"], sample["at"], last_full)))
                    break
        # ... and whatever the cadence of full collections, the heap comes back down: in a loop with a bounded live set the
        # smallest size after five consecutive collections does not exceed the largest of five collections twenty earlier
        # by more than half of it plus 1 MiB
        sizes = [sample["live_bytes"] for sample in result["acct"]["samples"] if not sample.get("sampled")]
        for i in range(24, len(sizes)):
            before = max(sizes[i - 24:i - 19])
            now = min(sizes[i - 4:i + 1])
            if now - before > (1 << 20) + before // 2:
                problems.append(("the heap only grows from collection to collection in a loop that keeps a bounded set alive",
                                 "after collection %d: at least %d bytes in use over five collections, at most %d twenty collections "
                                 "earlier" % (i, now, before)))
                break
        counters["drift_runs"] = 1
        counters["drift_nursery_collections_after_a_full_one"] = nursery_after_full
        counters["collections_full"] = sum(1 for point in result["fired"] if point[1] == 2)
        counters["collections_nursery"] = sum(1 for point in result["fired"] if point[1] == 1)
        counters["managed_allocations"] = result["allocs"]
        counters["vm_instructions"] = result["steps"]
        if nursery_after_full >= 5:
            outcome["signatures"].append("drift|%x|%s" % (case["seed"], schedules.hash_points(result["fired"])))
        for clause, detail in problems:
            outcome["violations"].append({"clause": clause, "detail": "churn-loop-big (garbage %s): %s" % (program.get("garbage"), detail),
                                          "case": copy.deepcopy(case)})
        outcome["sample"] = {"program_head": program["files"][program["main"]][:400], "threshold": case["threshold"],
                             "worst_ratio_to_live_size": round(worst, 2), "nursery_collections_judged": nursery_after_full}
        return outcome

    def monitor_problems(self, result):
        """(clause, detail) pairs from the accounting monitor, the arena and the end of run checks"""
        problems = []
        for error in (result.get("arena") or {}).get("errors", []):
            if error["kind"] == "layout_mismatch":
                problems.append(("block released with a different layout than it was allocated with",
                                 "block #%s at %s allocated as (size, align) %s released as %s" % (
                                     error["seq"], error["address"], error["expected"], error["got"])))
            else:
                problems.append(("block released twice or never allocated",
                                 "%s at %s" % (error["kind"], error["address"])))
        for message in result["acct"]["violations"]:
            if "bytes_allocated" in message or "total" in message:
                clause = "reported byte count differs from the sum of owned block sizes"
            elif "interned" in message or "intern key" in message:
                clause = "intern table is not exactly the live strings after a full collection"
            elif "directly after a full collection" in message or "second full collection" in message:
                clause = "second full collection in a row was not idle"
            elif "above the collection threshold" in message:
                clause = "byte threshold exceeded without a collection"
            elif "next_gc" in message:
                clause = "next collection threshold is not twice the live size"
            else:
                clause = "owned blocks and live heap blocks differ"
            problems.append((clause, message))
        final = result.get("final")
        if (final and self.baseline_roots is not None and result["vmexit"] == "ok" and not core.host_failure(result)
                and final["temp_roots"] != self.baseline_roots):
            problems.append(("temporary roots left behind by a program that ended normally",
                             "%d temporary roots at the end of the run, %d right after start-up" % (
                                 final["temp_roots"], self.baseline_roots)))
        leak = (result.get("arena") or {}).get("leak")
        if leak is not None and not core.host_failure(result) and leak["blocks"] != 0:
            problems.append(("blocks still allocated after the VM was dropped",
                             "%d blocks / %d bytes live after drop" % (leak["blocks"], leak["bytes"])))
        return problems

    def judge_books(self, ctx, case):
        program = case["program"]
        job = base_job(program, "books")
        job["gc"] = case["gc"]
        job["arena"] = case["arena"]
        job["acct"] = True
        job["final_gc"] = True
        job["acct_every"] = case.get("acct_every", 0)
        job["watch_from"] = self.startup
        result = ctx.run(job)
        outcome = {"jobs": 1, "violations": [], "signatures": [], "counters": {}}
        counters = outcome["counters"]
        failure = core.host_failure(result)
        if failure:
            # not this property's subject, but never silently dropped
            counters["runs_ending_in_host_failure"] = 1
        counters["accounting_evaluations"] = result["acct"]["checks"]
        counters["collections_full"] = sum(1 for point in result["fired"] if point[1] == 2)
        counters["collections_nursery"] = sum(1 for point in result["fired"] if point[1] == 1)
        counters["managed_allocations"] = result["allocs"]
        counters["blocks_freed"] = result["arena"].get("frees", 0)
        counters["vm_instructions"] = result["steps"]
        counters["schedule_" + case["gc"]["kind"]] = 1
        counters["policy_" + case["arena"].get("policy", "quarantine")] = 1
        if result["acct"]["checks"] > 0 and any(point[0] >= self.startup for point in result["fired"]):
            outcome["signatures"].append("%s|%s" % (case["label"], schedules.hash_points(result["fired"])))
        for clause, detail in self.monitor_problems(result):
            explicit = copy.deepcopy(case)
            if result["fired"] and case["gc"]["kind"] not in ("native",):
                explicit["gc"] = {"kind": "list", "points": result["fired"]}
            outcome["violations"].append({"clause": clause, "detail": "%s under %s: %s" % (
                case["label"], case["gc"]["kind"], detail), "case": copy.deepcopy(case), "explicit": explicit})
        outcome["sample"] = {"program": case["label"], "schedule": case["gc"] if len(str(case["gc"])) < 300 else case["gc"]["kind"],
                             "policy": case["arena"], "accounting_evaluations": result["acct"]["checks"],
                             "collections_fired": result["fired_total"], "end_of_run": result["final"]}
        return outcome

    def steady_run(self, ctx, case, kept):
        rng = core.rng_for(case["seed"], "program", 0)
        program = case.get("program_override") or churn_program(rng, kept, case["uniq"], case["phases"], case["channels"])
        if case.get("program_override") and kept != case["kept"]:
            return None, None, program
        first = base_job(program, "steady-probe")
        first["gc"] = schedules.never()
        probe = ctx.run(first)
        if core.host_failure(probe) or probe["vmexit"] != "ok":
            return probe, None, program
        marks = [mark[1] for mark in probe["marks"]]
        points = [(alloc, schedules.FULL_TWICE) for alloc in marks]
        if case["nursery"]:
            nursery_rng = core.rng_for(case["seed"], "nursery", 0)
            taken = set(marks)
            for alloc in range(self.startup, probe["allocs"]):
                if alloc not in taken and nursery_rng.randrange(case["nursery"]) == 0:
                    points.append((alloc, schedules.NURSERY))
        job = base_job(program, "steady")
        job["gc"] = schedules.points(points)
        job["arena"] = case["arena"]
        job["acct"] = True
        job["final_gc"] = True
        result = ctx.run(job)
        return probe, result, program

    def phases_of(self, probe, result):
        marks = set(mark[1] for mark in probe["marks"])
        seen = {}
        for sample in result["acct"]["samples"]:
            if sample["full"] and sample["at"] in marks:
                seen[sample["at"]] = sample
        return [seen[alloc] for alloc in sorted(seen)]

    def judge_steady(self, ctx, case):
        outcome = {"jobs": 0, "violations": [], "signatures": [], "counters": {}}
        counters = outcome["counters"]
        probe, result, program = self.steady_run(ctx, case, case["kept"])
        outcome["jobs"] += 2
        if result is None:
            counters["invalid_workload"] = 1
            return outcome
        if core.observable(probe) != core.observable(result):
            # C05's subject; recorded, not judged here
            counters["output_differs_under_schedule"] = 1
        problems = self.monitor_problems(result)
        phases = self.phases_of(probe, result)
        counters["steady_phases_observed"] = len(phases)
        counters["accounting_evaluations"] = result["acct"]["checks"]
        counters["collections_full"] = sum(1 for point in result["fired"] if point[1] == 2)
        counters["collections_nursery"] = sum(1 for point in result["fired"] if point[1] == 1)
        counters["managed_allocations"] = result["allocs"]
        counters["vm_instructions"] = result["steps"]
        # the last mark is '#end', after the loop
        loop = phases[2:-1]
        if len(loop) >= 60:
            outcome["signatures"].append("steady|%x|%d|%s" % (case["seed"], case["kept"], schedules.hash_points(result["fired"])))
            # Bounded memory: the conservative stack scan, the last caught error and the inline caches retain a
            # bounded, fluctuating amount of floating garbage, so phases are not compared for equality. A leak of
            # one block every other iteration (or more) shows as a sustained rise: the smallest live size of the last
            # four phases exceeds the largest of the first four by at least half a block per iteration in between.
            third = len(loop) // 3
            for key, unit in (("live_blocks", 1), ("live_bytes", 16), ("bytes_allocated", 16), ("interned", 1)):
                early = max(phase[key] for phase in loop[:4])
                middle_low = min(phase[key] for phase in loop[third:third + 4])
                middle_high = max(phase[key] for phase in loop[third:third + 4])
                late = min(phase[key] for phase in loop[-4:])
                # sustained: it rose in the first part and again in the second part (a one-off capacity
                # growth of a fiber stack or handler vector, or 'i' gaining a digit, rises once)
                # the bounded fluctuation measured on the unchanged tree is a few blocks / a few hundred bytes, so a rise
                # only counts when it is also larger than that floor
                floor = 8 * unit if unit == 1 else 640
                if (middle_low - early >= max(floor, unit * (third - 4) / 2.0)
                        and late - middle_high >= max(floor, unit * (len(loop) - third - 8) / 2.0)):
                    problems.append(("live heap grows in a loop that keeps a bounded set alive",
                                     "%s after the full collection at each phase: %s" % (key, [phase[key] for phase in loop])))
                    break
            if all(phase["kinds"] == loop[0]["kinds"] for phase in loop):
                counters["steady_runs_exactly_constant"] = 1

        for clause, detail in problems:
            outcome["violations"].append({"clause": clause, "detail": "churn-loop (kept %d, garbage %s): %s" % (
                case["kept"], program.get("garbage"), detail), "case": copy.deepcopy(case)})
        outcome["sample"] = {"program_head": program["files"][program["main"]][:400], "phases": len(phases),
                             "live_after_phase_2": loop[0]["kinds"] if loop else None, "policy": case["arena"]}
        return outcome

    def describe(self, key, now, before):
        if key == "kinds":
            changes = ["%s %d->%d" % (KINDS[i], before[i], now[i]) for i in range(len(KINDS)) if now[i] != before[i]]
            return "{" + ", ".join(changes) + "}"
        return "%s (was %s)" % (now, before)

    def shrink_candidates(self, case, clause):
        if case["kind"] == "books":
            for candidate in workloads.shrink_program_candidates(case):
                yield candidate
            return
        if case["kind"] == "steady":
            for key, low in (("kept", 0), ("uniq", 0), ("phases", 90)):
                if case[key] > low:
                    candidate = copy.deepcopy(case)
                    candidate[key] = low
                    yield candidate
            if case["nursery"]:
                candidate = copy.deepcopy(case)
                candidate["nursery"] = None
                yield candidate


def factory():
    return C20()
