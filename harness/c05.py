"""C05 - garbage collection is invisible.

Oracle: the same program under the `never` schedule (the executable specification: "collection ... never").
Every other schedule must give the same stdout, stderr and exit status, must not trip the header validity
monitor (a read of a freed, poisoned object), a runtime assertion, or the arena's books.
"""
import copy

from . import allgens, core, corpus, schedules, workloads
from .runner import Check

ENUM_LIMIT = 400        # programs with more collectable allocation points than this are sampled
PAIR_LIMIT = 70         # thorough tier: all pairs for programs with at most this many points


def base_job(program, tag):
    job = {"id": tag, "main": program["main"], "files": program["files"]}
    if program.get("stdin"):
        job["stdin"] = program["stdin"]
    if program.get("mode"):
        job["mode"] = program["mode"]
    if program.get("steps"):
        job["steps"] = program["steps"]
    return job


class C05(Check):
    prop = "C05"
    level = "fault_enumeration"
    builds = ("enum", "nan")
    technique = "deterministic simulation: seeded and enumerated collection schedules over a simulated heap, differential against the never-collect run"
    rule = ("a case is (program, collection schedule, address policy); programs are the repository's fixture corpus and "
            "seeded generated workloads (iterator pipelines with allocating callbacks, class/closure churn, fiber networks, "
            "module graphs, exception frames); schedules are every single collectable allocation point x {nursery, full} "
            "(enumerated per corpus program), all pairs (thorough) and seeded every/bernoulli/burst/periodic/threshold "
            "schedules; distinct = distinct (program, fired schedule) pairs; non-trivial = at least one collection actually "
            "ran inside the program (after VM start-up)")
    assumptions = [
        "the never-collect execution is the specification of the program's behaviour",
        "freed managed blocks are poisoned with 0xDF and, under the quarantine policy, never reused within a run, so a read of a freed object's header is detected by the header validity hook at the latest at the next collection that traces it",
        "programs whose reference output changes under a pure address perturbation (printing addresses or maps keyed by objects) are compared on exit class only",
        "hex addresses in output are normalised",
    ]

    def __init__(self):
        self.programs = None
        self.startup = None

    # ---- run plan
    def plan(self, tier):
        programs = corpus.load()
        plan = []
        for position in range(len(programs)):
            plan.append(("enum", position))
        if tier == "thorough":
            # every single point x both modes once more, on the NaN-boxed build
            for position in range(len(programs)):
                plan.append(("enum", position, "nan"))
        seeded = 3 if tier == "quick" else 20
        for position in range(len(programs)):
            for repeat in range(seeded):
                plan.append(("seeded", position, repeat))
        generated = 1500 if tier == "quick" else 60000
        for number in range(generated):
            plan.append(("generated", number))
        if tier == "thorough":
            for position in range(len(programs)):
                plan.append(("pairs", position))
        return plan

    def runs(self, tier):
        return len(self.plan(tier))

    def prepare(self, ctx):
        allgens.register_all()
        self.programs = corpus.load()
        self.the_plan = self.plan(ctx.tier)
        self.startup = self.startup_probe(ctx)

    # ---- cases
    def make(self, ctx, index):
        entry = self.the_plan[index]
        kind = entry[0]
        if kind in ("enum", "pairs"):
            program = self.programs[entry[1]]
            build = "enum"
            if len(entry) > 2:
                build = entry[2]
            return {"kind": kind, "program": program, "label": program["name"], "sample": index, "build": build}
        rng = core.rng_for(ctx.seed, "c05", index)
        if kind == "seeded":
            program = self.programs[entry[1]]
        else:
            program = workloads.generate(rng)
        variants = []
        for number in range(3):
            variants.append({"gc": schedules.random_schedule(rng, self.startup, self.startup + 400, program.get("heavy", False)),
                             "arena": schedules.random_policy(rng, 0.35)})
        # the quantifier names both value representations: a third of the seeded cases run on the NaN-boxed build
        # (reference and variants on the same build)
        return {"kind": "diff", "program": program, "label": program["name"], "variants": variants,
                "build": "nan" if rng.random() < 0.34 else "enum",
                "perturb": {"shift": rng.randrange(1, 64), "dummy_every": rng.choice([3, 5, 7, 11])}}

    def judge(self, ctx, case):
        if case["kind"] == "diff":
            return self.judge_diff(ctx, case)
        return self.judge_enum(ctx, case)

    # ---- the oracle
    def compare(self, reference, result, sensitive):
        """list of (clause, detail)"""
        problems = []
        failure = core.host_failure(result)
        if failure:
            problems.append(("host failure under a collection schedule", failure))
        for problem in core.memory_failure(result):
            if "layout_mismatch" in problem:
                continue  # C20's subject
            problems.append(("memory monitor under a collection schedule", problem))
        if failure:
            return problems
        a, b = core.observable(reference), core.observable(result)
        if sensitive:
            if (a["vmexit"], a["exit"]) != (b["vmexit"], b["exit"]):
                problems.append(("exit status differs from the never-collect run",
                                 "%s/%s vs %s/%s" % (a["vmexit"], a["exit"], b["vmexit"], b["exit"])))
        else:
            difference = core.first_difference(a, b)
            if difference:
                problems.append(("output differs from the never-collect run", difference))
        return problems

    def reference(self, ctx, program, perturb=None, build="enum"):
        job = base_job(program, "ref")
        job["gc"] = schedules.never()
        reference = ctx.run(job, build)
        sensitive = False
        jobs = 1
        if perturb and not core.host_failure(reference):
            job2 = base_job(program, "ref-perturbed")
            job2["gc"] = schedules.never()
            job2["arena"] = {"policy": "quarantine", "shift": perturb["shift"], "dummy_every": perturb["dummy_every"]}
            other = ctx.run(job2, build)
            jobs += 1
            if core.observable(other) != core.observable(reference):
                sensitive = True
        return reference, sensitive, jobs

    def judge_diff(self, ctx, case):
        program = case["program"]
        build = case.get("build", "enum")
        reference, sensitive, jobs = self.reference(ctx, program, case.get("perturb"), build)
        outcome = {"jobs": jobs, "violations": [], "signatures": [], "counters": {}, "fired_by_job": {}}
        counters = outcome["counters"]
        if core.host_failure(reference):
            counters["invalid_workload"] = 1
            counters["invalid:" + core.host_failure(reference)[:60] + " @ " + case["label"].split("#")[0]] = 1
            return outcome
        if sensitive:
            counters["address_sensitive_programs"] = 1
        for number, variant in enumerate(case["variants"]):
            job = base_job(program, "v%d" % number)
            job["gc"] = variant["gc"]
            job["arena"] = variant.get("arena", {"policy": "quarantine"})
            result = ctx.run(job, build)
            outcome["jobs"] += 1
            counters["build_" + build] = counters.get("build_" + build, 0) + 1
            outcome["fired_by_job"][str(number)] = result["fired"]
            self.count(counters, result, job)
            inside = [point for point in result["fired"] if point[0] >= self.startup]
            if inside:
                outcome["signatures"].append("%s|%s|%s" % (case["label"], build, schedules.hash_points(result["fired"])))
            for clause, detail in self.compare(reference, result, sensitive):
                single = copy.deepcopy(case)
                single["variants"] = [copy.deepcopy(variant)]
                # make the schedule explicit when that keeps the failure
                explicit = copy.deepcopy(single)
                explicit["variants"][0]["gc"] = {"kind": "list", "points": result["fired"]}
                outcome["violations"].append({
                    "clause": clause,
                    "detail": "%s (%s build) under %s / %s: %s" % (case["label"], build, variant["gc"].get("kind"),
                                                                    job["arena"].get("policy"), detail),
                    "case": single,
                    "explicit": explicit,
                })
        if outcome.get("sample") is None:
            outcome["sample"] = {
                "program": case["label"],
                "source_head": program["files"][program["main"]][:300],
                "schedules": [variant["gc"] for variant in case["variants"]][:2],
                "reference_exit": reference["vmexit"],
                "reference_allocations": reference["allocs"],
            }
        return outcome

    def count(self, counters, result, job):
        fired = result["fired"]
        counters["collections_fired_full"] = counters.get("collections_fired_full", 0) + sum(1 for p in fired if p[1] == 2)
        counters["collections_fired_nursery"] = counters.get("collections_fired_nursery", 0) + sum(1 for p in fired if p[1] == 1)
        counters["vm_instructions"] = counters.get("vm_instructions", 0) + result["steps"]
        counters["managed_allocations"] = counters.get("managed_allocations", 0) + result["allocs"]
        policy = (job.get("arena") or {}).get("policy", "quarantine")
        counters["policy_" + policy] = counters.get("policy_" + policy, 0) + 1
        counters["schedule_" + job["gc"]["kind"]] = counters.get("schedule_" + job["gc"]["kind"], 0) + 1
        counters["blocks_reused"] = counters.get("blocks_reused", 0) + result["arena"].get("reused", 0)
        for name, value in result["probes"].items():
            counters["probe_" + name] = counters.get("probe_" + name, 0) + value

    def judge_enum(self, ctx, case):
        """Every single collectable allocation point x {nursery, full} (or every pair) for one program."""
        program = case["program"]
        build = case.get("build", "enum")
        reference, sensitive, jobs = self.reference(ctx, program, {"shift": 7, "dummy_every": 5}, build)
        outcome = {"jobs": jobs, "violations": [], "signatures": [], "counters": {}}
        counters = outcome["counters"]
        if core.host_failure(reference):
            counters["invalid_workload"] = 1
            return outcome
        if sensitive:
            counters["address_sensitive_programs"] = 1
        total = reference["allocs"]
        candidates = list(range(self.startup, total))
        rng = core.rng_for(ctx.seed, "c05-enum", case["label"])
        if case["kind"] == "enum":
            if len(candidates) > ENUM_LIMIT:
                candidates = sorted(rng.sample(candidates, ENUM_LIMIT))
                counters["programs_sampled_not_enumerated"] = 1
            else:
                counters["programs_fully_enumerated"] = 1
            plans = [[(k, mode)] for k in candidates for mode in (schedules.NURSERY, schedules.FULL)]
        else:
            if len(candidates) > PAIR_LIMIT:
                candidates = sorted(rng.sample(candidates, PAIR_LIMIT))
                counters["programs_pairs_sampled"] = 1
            else:
                counters["programs_pairs_enumerated"] = 1
            plans = []
            for i, first in enumerate(candidates):
                for second in candidates[i + 1:]:
                    modes = rng.choice([(1, 1), (1, 2), (2, 1), (2, 2)])
                    plans.append([(first, modes[0]), (second, modes[1])])
        for plan in plans:
            job = base_job(program, "e")
            job["gc"] = schedules.points(plan)
            job["arena"] = {"policy": "quarantine"} if (plan[0][0] % 4) else {"policy": "eager"}
            result = ctx.run(job, build)
            outcome["jobs"] += 1
            counters["build_" + build] = counters.get("build_" + build, 0) + 1
            self.count(counters, result, job)
            if result["fired"]:
                outcome["signatures"].append("%s|%s|%s" % (case["label"], build, schedules.hash_points(result["fired"])))
            for clause, detail in self.compare(reference, result, sensitive):
                if len(outcome["violations"]) >= 3:
                    break
                diff = {"kind": "diff", "program": program, "label": case["label"], "build": build,
                        "variants": [{"gc": job["gc"], "arena": job["arena"]}], "perturb": {"shift": 7, "dummy_every": 5}}
                outcome["violations"].append({
                    "clause": clause,
                    "detail": "%s with collection(s) at %s: %s" % (case["label"], plan, detail),
                    "case": diff,
                })
        if case.get("sample", 1) % 97 == 0:
            outcome["sample"] = {"program": case["label"], "enumerated_points": len(candidates),
                                 "modes": "nursery and full at each point" if case["kind"] == "enum" else "pairs",
                                 "reference_exit": reference["vmexit"]}
        return outcome

    def shrink_candidates(self, case, clause):
        return workloads.shrink_program_candidates(case)


def factory():
    return C05()
