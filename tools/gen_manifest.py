#!/usr/bin/env python3
"""Writes /verif/MANIFEST.json from the table below (single source of truth for what is claimed)."""
import json
import os
import subprocess

VERIF = os.path.dirname(os.path.dirname(os.path.abspath(__file__)))

CLAIMED = {
    "C04": {
        "category": "fault_enumeration",
        "text": "For every generated program (functions, methods, lambdas with 0..3 parameters; locals before/inside/after tries; assignments; captured variables; for/while loops; tries nested to depth 3 with one to three catch clauses and class filters; handlers containing fault points, closures over the catch variable and rendezvous with another fiber; a module-level handler that sometimes matches one class only (errors without any matching handler must end the program with a traceback and a failing status); exits by completion, break, continue, return through several tries; callbacks run by native iterators incl. the lazy for protocol; in a quarter of the programs the outermost function is the root of a launched fiber, whose stack is sized from that function alone) every dynamic fault point (up to 40; through a helper call or inline in the frame of the try) is enumerated with error kinds: raise of Error / user subclass, IndexError, RuntimeError, PropertyError from the interpreter, stack overflow by unbounded recursion, an operator applied to operands of the wrong type, an instance of a second unrelated class that carries the name of a filter class, an Error subclass whose message is nil, and IoError (catch filters include a class that is only declared at the end of the file, whose evaluation raises itself); callbacks include List.sort comparators produced by a simulator-injected failure of the n-th file system read. An executable model of the IR gives the expected handler and the expected value of every variable in scope; GC schedule and address policy vary per program.",
        "design_ref": "DESIGN.md section 3 C04",
        "note": "Quick tier enumerates all points x 2 seeded kinds per program, thorough all 10 kinds. A program whose fault-free reference run itself fails is counted as invalid_workload. The model shares no code with Laythe.",
        "technique": "deterministic simulation with fault injection: enumerated dynamic fault points x error kinds (incl. injected fs faults), executable IR model as oracle",
    },
    "C10": {
        "category": "exploration",
        "text": "Generated mutation/observation histories over lists (initial lengths around the growth capacities), maps and instances through aliases in locals/parameters, module variables, fields, nested list elements, map keys (also of a map with a few hundred entries: equal numbers such as 0 and -0 find the same entry), tuple elements, closure captures, channel buffers, live loop iterators, callee frames, tables collected by natives, copies made by sort/slice/rev/list/collect (fresh objects whatever the receiver's length), single calls that make a list outgrow its block several times over (push of 13-40 values) followed by its use as a key and two levels deep, instances of a subclass that re-assigns an inherited field (read and written by name and through base-class methods), map entries kept while the walk goes on, keys that only the map refers to, and parameters of other fibers (mutations and observations also performed by another fiber across context switches); tuples and closures as identity-bearing keys, under seeded GC schedules; every observation must equal a reference heap with immutable identities.",
        "design_ref": "DESIGN.md section 3 C10",
        "note": "Exempt by construction (pinned known finding C10-forwarded-list-identity): identity observations on a list that has moved when a side is a reference stored outside the running fiber's stack before the latest move (or the move was made by another fiber, or the program runs at module level). References stored after the latest move, all locals of the running function, all content observations and all other identity observations are enforced.",
        "technique": "deterministic simulation: alias mutation histories incl. cross-fiber aliases under seeded GC schedules, reference-heap oracle",
    },
    "C17": {
        "category": "exploration",
        "text": "Generated acyclic module graphs (1..6 files incl. packages nested up to three levels) live in the simulated file system; the main module imports them in every form (whole, renamed, selected symbols with renames, repeated, transitive), optionally while a user fiber (paced by rendezvous so that it completes at a seeded point) is alive across the imports and with fibers inside module bodies (synchronous or buffered channels; bodies that end while a second sender or a worker of the module is still parked on the module's channel); packages sharing leaf names; exports that carry the name of a method every object has (str, equals, cls), modules with exactly 255 and 256 exports, exported variables that the module reassigns later and exports holding nil (every import statement yields a snapshot of the exported values of that moment); one module file may carry an injected read fault (not found / permission denied / invalid UTF-8); missing modules, non-exported and private names are requested on purpose. A module-graph model gives the expected marker order (first-import DFS, exactly once, before the importer continues), exported values, the private counter observable only through its export, and which runs must end with an ImportError before any later statement.",
        "design_ref": "DESIGN.md section 3 C17",
        "note": "Imports are only legal at module scope (observed), so import failures cannot be caught; a parent package file is provided and run before a nested module as the shipped loader does.",
        "technique": "deterministic simulation: module graphs in a simulated fs with read faults and fibers alive across imports, module-graph model as oracle",
    },
    "C19": {
        "category": "exploration",
        "text": "Generated prompt sessions (4..18 entries: lets, functions, classes, subclasses, instances, closures, functions with property/method/super sites called many entries later, module imports and calls into them, fibers within an entry and fibers launched by one entry and used by later ones, functions of later entries assigning to variables of earlier entries, entries whose definitions take effect before they raise, fibers parked on a channel across several entries and served by a later one, a line given up because a fiber it launched raised while the line was parked, failed imports repeated under another name, a missing module that the session then writes itself and imports again, and failing entries of 9 kinds incl. failing imports) are fed through the scripted read_line seam under seeded GC schedules; stdout with prompts stripped must equal Vm::run on the concatenation of the successful entries; failing entries must produce diagnostics and leave the session usable; EOF is injected after every prefix (enumerated) and the cut session must print a prefix of the full session and exit 0.",
        "design_ref": "DESIGN.md section 3 C19",
        "note": "Failing entries are constructed to have no effect before they fail (or carry what took effect as an explicit third element); results of fibers that live across entries are observed through order-independent sums.",
        "technique": "deterministic simulation: scripted stdin sessions with failing entries and EOF injected at every prefix, differential against one-file execution",
    },
    "C05": {
        "category": "fault_enumeration",
        "text": "Every single collectable allocation point x {nursery, full} is enumerated for every fixture program (all pairs in the thorough tier), plus seeded every/bernoulli/burst/periodic/threshold schedules over the corpus and over generated workloads (iterator pipelines with allocating callbacks incl. walks over maps and pipelines run as the root function of a freshly launched fiber, object churn incl. class hierarchies made at run time of which only the leaf escapes, fiber networks, class programs, string histories, exception frames with injected faults, alias histories, module graphs, prompt sessions), on a simulated heap that poisons freed blocks and either quarantines or eagerly reuses addresses. The never-collect run of the same program is the oracle; a header-validity hook turns any traced or dereferenced freed object into a typed panic. This samples (and for single points enumerates) the schedule quantifier; it is evidence, not proof.",
        "design_ref": "DESIGN.md section 3 C05, section 2.3-2.4",
        "note": "Trusts: the never-collect run as specification; poison+quarantine detecting freed-object reads; address-sensitive programs (detected by an address perturbation self-test) compared on exit class only. Both value representations: a third of the seeded cases (and, in the thorough tier, a second full single-point enumeration) run on the NaN-boxed worker.",
        "technique": "deterministic simulation with fault injection: enumerated + seeded GC schedules on a simulated heap, differential vs never-collect",
    },
    "C07": {
        "category": "exploration",
        "text": "Generated fiber/channel networks (sync and buffered channels, 1-5 fibers launched as functions, lambdas, methods and capturing closures, scripts of send/receive/close/drain/send-after-close; fibers launched by other fibers in the middle of their scripts; random, fan-in/out, backlog-at-close, ping-pong, count-balanced, early-wake (children completing while their parent sleeps on a channel), stale-sender, receivers-parked-at-close, fan-out-then-close-all and left-over-registration patterns) run on the real, unperturbed scheduler under seeded GC schedules and address policies. The recorded history (the program's own per-operation records) is judged by a history checker: nothing invented, duplicated, dropped or reordered per (sender, channel); len() never above capacity; a synchronous sender's post-send record never precedes the receipt; after close buffered values in order, then nil (never nil while the channel still holds values), sends raise; conservation sends == receipts + buffered at the end.",
        "design_ref": "DESIGN.md section 3 C07",
        "note": "Interleavings are those the shipped run queue produces for the generated network (the scheduler is the system under test and is not perturbed). Half of the networks send heap values (strings built at run time) that are reachable only through the channel while in flight, so a buffered or parked value that is freed or corrupted shows as a poisoned read. Verdict zone: a channel is closed only by a fiber that has itself sent to or received from it before the close (sends of other fibers into such a channel are guarded by try/catch); no channel operations in native callbacks (pinned known finding).",
        "technique": "deterministic simulation: generated process networks on the real scheduler, history checker over the recorded event sequence",
    },
    "C08": {
        "category": "exploration",
        "text": "Same networks as C07. The oracle is the set of outcomes {complete, deadlock} allowed by an ideal process-network model (bounded FIFOs, blocking operations, any schedule) obtained by exhaustive memoised search of the model's own state space; the run must end inside that set, never by step-budget exhaustion (hang/spin), host panic or internal error; launch must pass arguments/receiver/captures (each fiber echoes a tag); a joined program completes with every fiber's effects; nothing runs after main ends; deadlock is reported with a failing status. One run in forty is a fairness probe instead: fibers that need nothing are launched around two fibers that keep handing a value to each other, and every one of them must have had its turn within 300 hand-overs.",
        "design_ref": "DESIGN.md section 3 C08",
        "note": "Bounded liveness in VM instructions (20000 + 10000 per operation). When the model allows both outcomes either is accepted. Same verdict zone as C07; pinned known findings: C08-close-by-non-user (close by a fiber that never used the channel wakes nobody) and C08-channel-op-in-native-callback.",
        "technique": "deterministic simulation: generated process networks on the real scheduler vs the outcome set of an exhaustively explored ideal model; bounded liveness",
    },
    "C09": {
        "category": "exploration",
        "text": "Generated create/drop/re-create histories over string slots through 11 creation routes (incl. another module and a file read through the simulated fs), strings of several thousand bytes, pairs of equally long strings (130-200 bytes) that differ only in the middle, several thousand distinct strings alive at once (the intern table grows and re-buckets), module-level texts of a module whose functions nest three deep (compiled after the collections), plus member names (a class of the first module uses its fields only through self, a module compiled after the collections reaches the same fields and methods by name), with collections (nursery/full/double) placed right after `#gc` markers and at seeded points, under eager/seeded address reuse and quarantine. Every ==, !=, ordering, Map has/get/remove/len, List/Tuple has, List index observation must equal the generator's content model; the worker's intern-table monitor checks after every full collection that the table holds exactly the owned strings and that every key is its string's text.",
        "design_ref": "DESIGN.md section 3 C09",
        "note": "Content model = python string operations on generator-chosen literals; byte-wise UTF-8 ordering; member names are identifiers in the source (there is no by-string member access), so they are exercised through a second module compiled later.",
        "technique": "deterministic simulation: string histories under marker-aligned and seeded GC schedules with address reuse, content-model oracle plus intern-table invariant monitor",
    },
    "C13": {
        "category": "exploration",
        "text": "Generated class programs (static hierarchies to depth 3, differing field orders, super chains, classes created and dropped at run time with fresh subclasses, fields shadowing methods, shadow/unshadow flips, shared call/get/set/compound-assign/bound-method sites, the same receivers through a second module's sites, a launch of the other module's function directly followed by a site, calls with the wrong number of arguments repeated at one site, a class factory (one super site evaluated with different superclasses), modules with more than 256 sites of each kind, a field of another object read through self.<field>.<name>, subclasses whose init assigns an inherited field again before adding one of their own, at the prompt a module that fails to compile imported before everything else, garbage and class churn between uses; a third of the programs entered line by line at the prompt) executed twice under the same seeded GC schedule and address policy (70% with address reuse): caches enabled vs every lookup forced to miss. Outputs, exit and host failures must agree; each site's result is also checked against what the program's construction prescribes.",
        "design_ref": "DESIGN.md section 3 C13",
        "note": "The forced-miss execution is the specification (hook returns 'miss' before the lookup; fills still happen).",
        "technique": "deterministic simulation: cache-enabled vs forced-miss execution under seeded GC schedules with eager address reuse",
    },
    "C14": {
        "category": "exploration",
        "text": "The simulator is built twice (tagged-enum and NaN-boxed values) and both workers execute identical jobs: fixture corpus, generated workloads of all other checks, and generated numeric programs (-0, infinities, NaNs, subnormals, 2^53 neighbours through ==, ordering, map keys, has/index, formatting, parsing, rounding, truthiness, printing and iterating scalar-keyed maps), built-ins applied to operands of every kind (results, error classes and messages), lists growing past their block through aliases around power-of-two and page-size element counts, each under the same seeded GC schedule and address policy. stdout, stderr, exit status and host failures must be equal across builds.",
        "design_ref": "DESIGN.md section 3 C14",
        "note": "Configuration differential: there is no schedule in the property itself; what simulation adds is identical seeds/schedules in both builds and the NaN-boxed tracing/equality under GC schedules on the poisoning heap. Address-sensitive programs compared on exit class only.",
        "technique": "deterministic simulation of both build configurations under identical seeds, workloads and schedules; cross-build differential",
    },
    "C20": {
        "category": "exploration",
        "text": "The simulated heap keeps independent books (size, alignment, liveness of every managed block). At the first quiescent point after every collection and at end of run the worker checks conservation: reported bytes == sum of owned sizes == live arena bytes, owned blocks == live arena blocks, intern table == live strings after a full collection, a back-to-back second full collection frees nothing, next_gc == 2 x live under the shipped threshold policy, every release carries its allocation layout, the arena is empty after the VM is dropped, a program that ends normally leaves exactly the start-up number of temporary roots, and between full collections the heap does not drift away from the live size (after any nursery collection under the shipped threshold policy at most 16 x the bytes alive at the latest full collection + 1 MiB are in use, and the smallest size over five collections does not exceed the largest of five collections twenty earlier by more than half of it + 1 MiB, in loops producing short-lived objects of several kilobytes and a rolling window of promoted objects), and what managed objects and the VM obtain outside the managed heap is given back (bytes still held from the system allocator after the VM was dropped are the same for n and 4 n iterations of a churn loop, measured in quiet jobs); churn loops with phase markers (90-140 phases, garbage of every object kind incl. errors raised inside natives, twelve mailboxes served round robin by the long-lived main fiber) check bounded memory (no sustained rise of the live size). Seeded nursery/full interleavings over corpus + generated programs.",
        "design_ref": "DESIGN.md section 3 C20",
        "note": "Trusts the arena side table as truth; invariants evaluated at quiescent points only; bounded-memory clause detects leaks of >= 1 block (or 16 bytes) per two loop iterations sustained over both halves of >= 60 phases and above a noise floor of 8 blocks / 640 bytes; channel creation inside the steady loop excluded (known finding C20-channel-retention).",
        "technique": "deterministic simulation: conservation invariants against the simulated heap's books under seeded collection interleavings",
    },
}

NOT_APPLICABLE = {
    "C01": "pure function of the program text (expression/statement semantics on one fiber): no schedule, fault, clock or interleaving for a simulator to own; deciding it is differential testing against a reference evaluator, a different technique",
    "C02": "scoping/closure semantics are a pure function of the program text on one fiber; no nondeterminism or fault dimension",
    "C03": "class/dispatch semantics are a pure function of the program text; the history/schedule-dependent part (inline caches, collected classes) is C13, which is claimed",
    "C06": "static property of compiler output over all control-flow paths (bytecode verification / abstract interpretation), nothing executes under a schedule",
    "C11": "each built-in is a pure function of receiver state and arguments; deciding it is model-based input generation, not simulation",
    "C12": "rewrite correctness of the peephole pass over instruction windows: equivalence checking, no execution nondeterminism",
    "C15": "totality of the front end is a pure function of the input text (fuzzing); the repl-continues clause is exercised under C19",
    "C16": "quantifies over programs and built-in argument combinations (input enumeration); io faults are outside its quantifier; every simulated run of the claimed checks is crash-monitored regardless",
    "C18": "traceback contents are a pure function of program and line layout; no schedule or fault dimension",
}

IN_PROGRESS = {}


def main():
    hooks_commits = subprocess.run(
        ["git", "-C", "/repo", "log", "--format=%h %s", "--grep", "^verif hooks"], capture_output=True, text=True
    ).stdout.strip().splitlines()
    checks = []
    for prop in sorted(CLAIMED):
        entry = CLAIMED[prop]
        checks.append({
            "property_id": prop,
            "quick_cmd": "./check %s --tier quick" % prop,
            "thorough_cmd": "./check %s --tier thorough" % prop,
            "evidence_file": "/verif/evidence/%s.json" % prop,
            "replay_cmd_template": "./check %s --replay {path}" % prop,
            "engine": "laythe-dst",
            "level_claimed": {"category": entry["category"], "text": entry["text"], "design_ref": entry["design_ref"]},
            "level_note": entry["note"],
            "technique": entry["technique"],
        })
    manifest = {
        "version": 1,
        "setup_cmd": "cd /verif/sim && CARGO_NET_OFFLINE=true cargo build --release --offline --target-dir target && CARGO_NET_OFFLINE=true cargo build --release --offline --features nan --target-dir target_nan",
        "hooks": {
            "guard": "cargo feature `verif` (laythe_core/verif, forwarded by laythe_vm/verif); every hook line is behind #[cfg(feature = \"verif\")]",
            "enable": "the workers in /verif/sim depend on /repo/laythe_{core,vm,env} by path with features = [\"verif\"]; ./check rebuilds them from /repo's working tree on every invocation",
            "baseline_off_cmd": "cd /repo && cargo test --workspace --no-fail-fast --offline",
            "source_commits": [line.split()[0] for line in hooks_commits],
            "add_only": True,
        },
        "engines": [{
            "name": "laythe-dst",
            "path": "/verif/sim (Rust worker: arena, simulated io, schedule seam) + /verif/harness (Python driver, generators, oracles)",
            "serves_properties": sorted(CLAIMED),
            "kind_free_text": "deterministic simulation with fault injection: one process per shard runs the real Laythe runtime over a simulated heap, stdio, file system, clock and collection schedule; every choice derives from VERIF_SEED",
        }],
        "checks": checks,
        "not_applicable": [{"property_id": prop, "reason": reason} for prop, reason in sorted({**NOT_APPLICABLE, **IN_PROGRESS}.items())],
        "notes": "Exit codes: 0 held on everything explored, 1 VIOLATION line(s), 2 harness error. Known findings: /verif/known_findings.json. Seeded property-breaking changes used to test the checks: /verif/seeded/.",
    }
    with open(os.path.join(VERIF, "MANIFEST.json"), "w") as handle:
        json.dump(manifest, handle, indent=1)
        handle.write("\n")


if __name__ == "__main__":
    main()
