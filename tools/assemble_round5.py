#!/usr/bin/env python3
"""Fifth round of seeded changes (worktrees /tmp/wt5_<P>, stored as M14, M15): copies each change into /verif/seeded/<id>/,
writes meta.json and appends a row per change to seeded/README.md (the rows of rounds 1-4 stay as tools/assemble_seeded.py
wrote them: their scratch worktrees are gone).
Inputs per change: /tmp/wt5_<P>/MUTANT<k>/ (patch.diff, demonstration, README.md, expected_good.txt),
/tmp/confirm5/<P>_M<k>.json (tools/confirm_mutant.py), /tmp/ev5/<P>_M<k>.log (tools/eval_mutant.py output),
tools/round5_notes.json ({id: [mechanism, needs to manifest]}, optional {id: superseded / not caught reason})."""
import json
import os
import re
import shutil

VERIF = os.path.dirname(os.path.dirname(os.path.abspath(__file__)))
SEEDED = os.path.join(VERIF, "seeded")
OFFSET = 13
MARK = "<!-- round 5 -->"


def main():
    notes = json.load(open(os.path.join(VERIF, "tools", "round5_notes.json")))
    rows = []
    for prop in ["C04", "C05", "C07", "C08", "C09", "C10", "C13", "C14", "C17", "C19", "C20"]:
        for n in (1, 2, 3):
            source = "/tmp/wt5_%s/MUTANT%d" % (prop, n)
            key = "%s-M%d" % (prop, OFFSET + n)
            if not os.path.exists(os.path.join(source, "patch.diff")):
                continue
            confirm_path = "/tmp/confirm5/%s_M%d.json" % (prop, n)
            confirm = {}
            if os.path.exists(confirm_path):
                text = open(confirm_path).read()
                try:
                    confirm = json.loads(text[text.index("{"):])
                except ValueError:
                    confirm = {"error": "unparsable confirmation output"}
            if not (confirm.get("suite_only_baseline_failures") and confirm.get("demo_discriminates")):
                print("SKIPPED (not confirmed):", key, confirm.get("suite_only_baseline_failures"), confirm.get("demo_discriminates"))
                continue
            lines = []
            log = "/tmp/ev5/%s_M%d.log" % (prop, n)
            if os.path.exists(log):
                lines = [l.strip()[:700] for l in open(log) if re.match(r"C\d+ exit=", l) or l.startswith("NOTE")]
            caught = [l for l in lines if re.search(r"exit=1 violations=[1-9]", l)]
            caught_by = sorted(set(l.split()[0] for l in caught))
            mechanism, needs = notes.get(key, ["", ""])[:2]
            other = notes.get(key + ":verdict")
            target = os.path.join(SEEDED, key)
            shutil.rmtree(target, ignore_errors=True)
            os.makedirs(target)
            for name in sorted(os.listdir(source)):
                path = os.path.join(source, name)
                if os.path.isfile(path) and os.path.getsize(path) < 200000:
                    shutil.copy(path, os.path.join(target, name))
            meta = {
                "id": key,
                "breaks_property": prop,
                "written_by": "independent sub-agent that saw only the property text and its own scratch worktree",
                "mechanism": mechanism,
                "needs_to_manifest": needs,
                "base_commit": "applies to /repo HEAD (7908ebf)",
                "independent_confirmation": {
                    "patch_applies": confirm.get("patch_applies"),
                    "builds": confirm.get("builds"),
                    "pinned_suite_only_baseline_failures": confirm.get("suite_only_baseline_failures"),
                    "demonstration": confirm.get("demo_kind"),
                    "demonstration_discriminates": confirm.get("demo_discriminates"),
                    "clean_tree": confirm.get("clean_tree"),
                    "with_patch": confirm.get("with_patch"),
                    "command": "tools/confirm_mutant.py /tmp/wt5_%s %s" % (prop, source),
                },
                "checks_run": ["tools/eval_mutant.py /tmp/wt5_%s <patch> <check>   (quick tier unless the result line says otherwise, VERIF_SEED=1)" % prop],
                "results": lines,
                "caught": bool(caught),
                "caught_by": caught_by,
                "superseded": None,
                "not_caught_because": other if not caught else None,
            }
            json.dump(meta, open(os.path.join(target, "meta.json"), "w"), indent=1)
            clauses = ""
            if caught:
                found = re.search(r"\[(.*?)\] \|", caught[0])
                clauses = found.group(1)[:160] if found else ""
            verdict = "caught by %s: %s" % (", ".join(caught_by), clauses) if caught else "NOT caught: %s" % (other or "")
            rows.append("| %s | %s | %s | yes |" % (key, mechanism, verdict))
            print(key, verdict[:120])
    readme = os.path.join(SEEDED, "README.md")
    text = open(readme).read()
    if MARK in text:
        text = text[:text.index(MARK)]
    text = text.rstrip("\n") + "\n" + MARK + "\n" + "\n".join(rows) + "\n"
    open(readme, "w").write(text)


if __name__ == "__main__":
    main()
