#!/usr/bin/env python3
"""try_mutation.py <repo-relative file> <old> <new> -- <check args...>: apply a one-off edit to /repo, run ./check, revert."""
import subprocess, sys
i = sys.argv.index('--')
path, old, new = sys.argv[1:4]
args = sys.argv[i + 1:]
full = '/repo/' + path
text = open(full).read()
if text.count(old) != 1:
    print('pattern occurs %d times' % text.count(old)); sys.exit(3)
open(full, 'w').write(text.replace(old, new))
try:
    proc = subprocess.run(['/verif/check'] + args + ['--no-evidence', '--no-minimise'], capture_output=True, text=True)
    lines = proc.stdout.strip().splitlines()
    viol = [l for l in lines if l.startswith('VIOLATION')]
    clauses = sorted(set(l.strip() for l in lines if l.strip().startswith('clause:')))
    print('exit', proc.returncode, '| violations', len(viol), '|', clauses[:4], '|', lines[-1] if lines else '', proc.stderr[-300:])
finally:
    subprocess.run(['git', '-C', '/repo', 'checkout', '--', path])
    subprocess.run('rm -rf /verif/replays/C[0-9][0-9]', shell=True)
