#!/bin/bash
# Runs the pinned suite on /repo (guard off) and checks the failing set equals the 5 always-failing tests.
cd /repo || exit 2
out=$(CARGO_NET_OFFLINE=true cargo test --workspace --no-fail-fast --offline "$@" 2>&1)
fails=$(echo "$out" | grep -E "^test .* \.\.\. FAILED" | sed -E 's/^test (.*) \.\.\. FAILED/\1/' | sort | tr '\n' ' ')
passed=$(echo "$out" | grep -E "^test result" | sed -E 's/.* ([0-9]+) passed.*/\1/' | paste -sd+ | bc)
echo "passed=$passed failed: $fails"
expected="env math::utils::test::cos::call math::utils::test::rand::call math::utils::test::sin::call utils "
if [ "$fails" == "$expected" ] && ! echo "$out" | grep -q "could not compile"; then echo BASELINE-OK; exit 0; else echo "$out" | tail -50; echo BASELINE-BAD; exit 1; fi
