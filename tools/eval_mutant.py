#!/usr/bin/env python3
"""eval_mutant.py <worktree> <patch.diff> <check ids...> [-- extra check args]
Applies the patch inside the scratch worktree, builds a scratch copy of the simulator against that worktree and runs the
given checks' quick tier against it. /repo and /verif/sim are not touched. Prints one line per check."""
import os, shutil, subprocess, sys

args = sys.argv[1:]
extra = []
if '--' in args:
    i = args.index('--'); extra = args[i + 1:]; args = args[:i]
wt, patch, checks = args[0], args[1], args[2:]
name = os.path.basename(wt.rstrip('/'))
simdir = '/tmp/sim_' + name
subprocess.run(['git', '-C', wt, 'checkout', '--', '.'], check=True)
# evaluate on top of the repaired tree (/repo's committed HEAD), not on the commit the worktree was created at
head = subprocess.run(['git', '-C', '/repo', 'rev-parse', 'HEAD'], capture_output=True, text=True).stdout.strip()
subprocess.run(['git', '-C', wt, 'checkout', '-q', '--detach', head], check=True)
if subprocess.run(['git', '-C', wt, 'apply', '--check', patch], capture_output=True).returncode != 0:
    # the patch touches lines a later repair changed: evaluate it on the commit it was written against
    base = os.environ.get('VERIF_MUTANT_BASE', 'b751187')
    print('NOTE patch does not apply to HEAD, evaluated on', base)
    os.environ['VERIF_NO_REGRESS'] = '1'
    subprocess.run(['git', '-C', wt, 'checkout', '-q', '--detach', base], check=True)
subprocess.run(['git', '-C', wt, 'apply', patch], check=True)
try:
    os.makedirs(simdir, exist_ok=True)
    for item in ('src', 'Cargo.lock', '.cargo'):
        src = os.path.join('/verif/sim', item); dst = os.path.join(simdir, item)
        if os.path.isdir(src):
            shutil.rmtree(dst, ignore_errors=True); shutil.copytree(src, dst)
        else:
            shutil.copy(src, dst)
    toml = open('/verif/sim/Cargo.toml').read().replace('/repo/', wt.rstrip('/') + '/')
    open(os.path.join(simdir, 'Cargo.toml'), 'w').write(toml)
    env = dict(os.environ, VERIF_SIM_DIR=simdir, VERIF_REPO_DIR=wt, VERIF_REPLAYS_DIR='/tmp/replays_' + name)
    for check in checks:
        proc = subprocess.run(['/verif/check', check, '--no-evidence'] + extra, capture_output=True, text=True, env=env)
        lines = proc.stdout.strip().splitlines()
        clauses = sorted(set(l.strip()[8:] for l in lines if l.strip().startswith('clause:')))
        print('%s exit=%d violations=%d %s | %s' % (check, proc.returncode, sum(1 for l in lines if l.startswith('VIOLATION')),
                                                     clauses[:5], lines[-1] if lines else proc.stderr[-300:]))
        sys.stdout.flush()
finally:
    subprocess.run(['git', '-C', wt, 'checkout', '--', '.'])
