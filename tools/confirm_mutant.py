#!/usr/bin/env python3
"""confirm_mutant.py <worktree> <mutant dir>
Independently confirms a sub-agent's property-breaking change in a scratch worktree:
  1. the patch applies, the tree builds and the pinned suite shows exactly the 5 always-failing tests,
  2. the demonstration behaves as `expected_good.txt` on the clean tree and differently with the patch.
Prints a JSON summary. The worktree is left clean."""
import json
import os
import subprocess
import sys

EXPECTED_FAILS = ["env", "math::utils::test::cos::call", "math::utils::test::rand::call", "math::utils::test::sin::call", "utils"]
ENV = dict(os.environ, CARGO_NET_OFFLINE="true")


def sh(cmd, cwd, timeout=1800):
    try:
        proc = subprocess.run(cmd, cwd=cwd, shell=True, capture_output=True, text=True, timeout=timeout, env=ENV)
        return proc.returncode, proc.stdout + proc.stderr
    except subprocess.TimeoutExpired:
        return -9, "TIMEOUT"


def suite(wt, features=""):
    code, out = sh("cargo test --workspace --no-fail-fast --offline %s 2>&1" % features, wt)
    fails = sorted(line.split()[1] for line in out.splitlines() if line.startswith("test ") and line.endswith("FAILED"))
    return fails == EXPECTED_FAILS and "could not compile" not in out, fails


def demo(wt, mutant):
    """Returns (kind, exit code, output)"""
    if os.path.exists(os.path.join(mutant, "demo.sh")):
        code, out = sh("bash demo.sh 2>&1", mutant, 900)
        return "demo.sh", code, out
    if os.path.exists(os.path.join(mutant, "demo.lay")):
        code, out = sh("%s/target/debug/laythe demo.lay 2>&1" % wt, mutant, 900)
        return "demo.lay", code, out
    return "none", None, ""


def main():
    wt, mutant = sys.argv[1], sys.argv[2]
    summary = {"mutant": mutant}
    sh("git checkout -- .", wt)
    code, _ = sh("cargo build -p laythe --offline 2>&1", wt)
    kind, good_code, good_out = demo(wt, mutant)
    summary["demo_kind"] = kind
    summary["clean_tree"] = {"exit": good_code, "output_head": good_out[:600]}
    code, out = sh("git apply %s/patch.diff" % mutant, wt)
    summary["patch_applies"] = code == 0
    try:
        code, out = sh("cargo build -p laythe --offline 2>&1", wt)
        summary["builds"] = code == 0
        ok, fails = suite(wt)
        summary["suite_only_baseline_failures"] = ok
        if not ok:
            summary["suite_failures"] = fails
        kind, bad_code, bad_out = demo(wt, mutant)
        summary["with_patch"] = {"exit": bad_code, "output_head": bad_out[:600]}
        summary["demo_discriminates"] = (good_code, good_out) != (bad_code, bad_out)
    finally:
        sh("git checkout -- .", wt)
        sh("cargo build -p laythe --offline 2>&1", wt)
    print(json.dumps(summary, indent=1))


if __name__ == "__main__":
    main()
