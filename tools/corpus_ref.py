import sys, json, collections
sys.path.insert(0, '/verif')
from harness import core, corpus
binary = core.build()
w = core.Worker(binary)
progs = corpus.load()
print(len(progs), 'programs')
bad = collections.Counter()
allocs = []
for p in progs:
    r = w.run({"id": p["name"], "main": p["main"], "files": p["files"], "gc": {"kind": "never"}})
    hf = core.host_failure(r)
    if hf or r["vmexit"] != p["expected"]:
        print(p["name"], 'expected', p["expected"], 'got', r["vmexit"], hf, r["stderr"][:200].replace('\n',' | '))
        bad[p["name"].split('/')[1] if '/' in p["name"] else p["name"]] += 1
    allocs.append(r["allocs"])
print(bad)
allocs.sort()
print('allocs median', allocs[len(allocs)//2], 'max', allocs[-3:], 'sum over 499', sum(a-499 for a in allocs))
