#!/usr/bin/env python3
"""Copies the sub-agents' property-breaking changes from their scratch worktrees into /verif/seeded/<id>/ and writes
meta.json (what it breaks, what it needs to manifest, what was run and what caught it) plus the README table.
Inputs: /tmp/wt_<P>/MUTANT<n>/ (patch.diff, demonstration, README.md), /tmp/confirm/<P>_M<n>.json (confirm_mutant.py),
an evaluation log in the format of tools/eval_mutant.py ("== <P> MUTANT<n>" followed by result lines)."""
import json
import os
import re
import shutil
import sys

VERIF = os.path.dirname(os.path.dirname(os.path.abspath(__file__)))
SEEDED = os.path.join(VERIF, "seeded")

# mechanism / what it needs, condensed from the agents' own READMEs
NOTES = {
    "C04-M1": ("`return <value>` inside nested tries emits a single PopHandler", "a value-returning return inside >= 2 nested try blocks of one function, then a later error while the stale handler is on top"),
    "C04-M2": ("Fiber::trace no longer traces the in-flight error", "error raised in the same frame as the try with no local below it, and a collection during FinishUnwind's allocations"),
    "C04-M3": ("unwind boundary `>` back to `>=`", "a callback that raises, driven by a for-in or a stack-less native over a lazy map/filter, with the matching try in the same activation"),
    "C05-M1": ("channel buffer traced only up to the ring's wrap point", "a buffered channel partly drained and refilled so its contents wrap, heap values reachable only through it, a collection, then a receive"),
    "C05-M2": ("intern cache pruned only on full sweeps", "a nursery collection that frees a dead nursery string, then the same text built again before the next full sweep (invisible to collect-at-every-allocation)"),
    "C05-M3": ("property inline cache entries no longer keep their class alive", "a run-time class used at a property site, dropped, collected, address reused by a class with another field layout"),
    "C07-M1": ("a closed channel stops tracing its buffered values", "heap values referenced only by a buffered channel that is closed while they are buffered, a collection, then the receives"),
    "C07-M2": ("a closed but undrained channel still accepts sends", "a buffered channel closed while it still holds a value, and a send before it is drained"),
    "C07-M3": ("closed sync channel hands out its parked sender while its value is still queued", "a sender parked in a sync send, another fiber closing the channel, then a wake-up scan by a third fiber before any receive"),
    "C08-M1": ("partially filled buffered channel forgets parked receivers", "capacity >= 2, a receiver parked while empty, a sender that puts in fewer values than the capacity, receiver not the parent of a completing fiber"),
    "C08-M2": ("completing fiber clears its channel list before waking the fibers waiting on it", "a fiber that leaves more than one waiter runnable and then returns while its parent is asleep"),
    "C08-M3": ("parked senders are not GC roots", "a launched fiber parked as a sender, a collection during that window, then the send becoming possible"),
    "C09-M1": ("class field names no longer traced", "class in an imported module, field used only through self, a collection, then access by name from code compiled later"),
    "C09-M2": ("intern table swept before temporary roots are traced", "a native holding new strings only through a temp root when a collection fires, an equal string created later"),
    "C09-M3": ("freeing a string removes the intern entry of its text", "string promoted, dropped, nursery collection, equal string re-created and kept, full collection, equal string created again"),
    "C10-M1": ("grown buffer of a forwarded list is never marked through the old header", "a grown list reachable only through non-rewritten aliases, every rewritten stack reference gone, a collection, later use"),
    "C10-M2": ("scan_roots only walks the current call frame", "growth in a callee while the caller holds aliases, the list comes back under its new address, comparison before another scanning native"),
    "C10-M3": ("clear() through a stale forwarding header revives it as an independent empty list", "a grown list with rewritten and non-rewritten aliases, clear() through the non-rewritten one, observation through the other"),
    "C13-M1": ("property cache entries no longer traced", "run-time class reaches a by-name property site, dies, is swept, a class with another field order lands on its address"),
    "C13-M2": ("cached module-cache index not restored after launch", "two user modules, launch of a function of the other module, a property/invoke site executed directly afterwards in the same frame"),
    "C13-M3": ("swapped arguments in the prompt's cache slot numbering", "interactive prompt only: unequal property/invoke slot counts when a later entry with a site of the larger kind is compiled, same class at both aliased sites"),
    "C14-M1": ("bit-identity fast path in the NaN-boxed PartialEq", "a NaN compared with a NaN of the same bit pattern (==, has, index, map keys)"),
    "C14-M2": ("enum Hash hashes to_bits() instead of the truncated integer", "a -0 produced by arithmetic used as a key of a map with more than 112 entries"),
    "C14-M3": ("List.sort decodes the comparator result without the is_num guard", "a comparator returning a non-number on a list of >= 2 elements (panics in the enum build only)"),
    "C17-M1": ("import wake guard forgets the Blocked state of the import fiber", "module body blocks on a channel, importer launched a fiber before the import, that fiber completes exactly then"),
    "C17-M2": ("export check skipped on the cached import path", "module already cached by an earlier import, then a symbol import of a top-level name that exists but is not exported"),
    "C17-M3": ("module cache keyed by the last path segment", "two different modules with the same leaf name imported in one run"),
    "C19-M1": ("cache padding loop became an if", "two consecutive failing imports at the prompt, then a good import, then a call into it"),
    "C19-M2": ("resolver no longer re-declares module symbols whose value is undefined", "a let whose initialiser raises, then an entry that introduces a new symbol"),
    "C19-M3": ("unhandled error clears the fiber run queue", "a fiber launched on an earlier line that has not run yet, an unrelated line that raises, then a line that communicates with that fiber"),
    "C20-M1": ("forwarded list stub sized from the end of its forwarding chain", "a list that outgrew its block, then a collection that retains or releases the stub"),
    "C20-M2": ("intern table swept before temporary roots are marked", "a collection while a surviving string is held only by a temporary root, the same text produced again later"),
    "C20-M3": ("a failing native is relieved of only one temporary root", "an exception leaving a native that holds >= 2 temporary roots (reduce), caught, repeatedly"),
    # ---- second round (worktrees /tmp/wt2_<P>), stored as M4..M6
    "C04-M4": ("op_check_handler drops the filter class only when it matches", "a try with >= 2 catch clauses where an earlier clause rejects and a later one accepts"),
    "C04-M5": ("catch variable defined as initialized local even when captured (FillBox skipped)", "the catch variable captured by a closure created inside the handler"),
    "C04-M6": ("finish_unwind skips activate() when no frame is truncated", "a same-frame raise and catch, then the same fiber parks on a channel or completes as a launched fiber"),
    "C05-M4": ("nursery sweep returns early when the nursery is empty, leaving the old generation marked", "a nursery collection with no object allocated since the previous one, then another collection before the next full sweep"),
    "C05-M5": ("fiber stacks traced only up to stack_top", "a popped channel operand living only in a Rust local while add_used_channel allocates and a collection lands there"),
    "C05-M6": ("print made a stack-less native", "print with >= 2 arguments, an earlier argument's str() growing the fiber's stack, a collection and memory reuse before the next argument is read"),
    "C07-M4": ("wake-up scan skips channels that are closed and drained", "a fiber parked on the channel before it is closed, not woken some other way"),
    "C07-M5": ("sync send decides from the parked-sender list instead of the queue", ">= 3 fibers contending on one sync channel, a woken sender retrying while the slot is empty and another sender is registered"),
    "C07-M6": ("sync sender marks itself blocked before running its wake-up scan", "the sender holding a stale waiter entry of itself on an empty open sync channel when it parks on a second sync channel"),
    "C08-M4": ("find_runnable_waiter pops a single entry", "two stale registrations of a finished fiber in front of a live receiver, then a send and a parking sender, nothing else touching the channel"),
    "C08-M5": ("queue_blocked_fiber only checks the back of the run queue for duplicates", "a fiber woken, another fiber woken, the first found again, and it parks on a sync channel or completes before its duplicate entry is reached"),
    "C08-M6": ("receiver parking on an empty buffered channel no longer rescans its other channels", "a receiver parked on a channel that is then closed by a fiber whose next blocking operation is a receive on an empty buffered channel"),
    "C09-M4": ("strings longer than 4096 bytes skip the intern table, == patched, hash not", "two separately created equal strings longer than 4096 bytes used as map keys"),
    "C09-M5": ("intern sweep skipped when nothing was interned since the last sweep", "old string dropped, a full collection with no new string interned since the previous collection, an equal string created afterwards"),
    "C09-M6": ("Iter.reduce re-roots its accumulator in the wrong order", "a freshly allocated accumulator and a collection inside iter.next() of the reduced iterator"),
    "C10-M4": ("numbers hashed by bit pattern in both representations", "a -0 key and a map with at least 113 entries"),
    "C10-M5": ("list iterator walks a snapshot of the element buffer", "a live iterator, a mutation through another alias (growth), then continued iteration"),
    "C10-M6": ("list.has() reads its argument before the stack rewrite and compares after", "a forwarded receiver (collected by a native from a hint-less iterator) and a searched value that is itself a forwarded list"),
    "C13-M4": ("invoke cache filled before the field-shadows-method check", "a class with a method and a callable field of the same name at one call site executed at least twice"),
    "C13-M5": ("occupied property slot retargeted in place keeps the old property index", "a property site seeing class A then class B twice in a row with the field at different indexes"),
    "C13-M6": ("super-invoke cache entry stored after the callee frame is pushed (lands in the callee's module cache)", "a class extending a class of another module, a super call, and a site with the same slot number in the other module"),
    "C14-M4": ("sentinel NaN pinned to a bit pattern the NaN-boxed build cannot hold", "an arithmetic NaN used as a map key in the NaN-boxed build"),
    "C14-M5": ("Map.remove error message formats the key with derived Debug", "remove of an absent key with the message observed"),
    "C14-M6": ("boxed Hash hashes negative numbers through i64", "a map with >= 2 number keys <= -1 whose iteration order is observed"),
    "C17-M4": ("module cached under the resolved path before it is known to be the one requested", "an import path with >= 2 segments whose parent module is not loaded yet"),
    "C17-M5": ("memoised module instance shared by all importers", "a whole-module import, then an exported let reassigned or a field written by that importer, then another whole-module import"),
    "C17-M6": ("'circular import' guard compares the symbol with nil", "a selected-symbol import of an exported binding that currently holds nil"),
    "C19-M4": ("stale line offsets for the prompt's file", "a prompt entry after the first that fails to compile with the error past the extent of the first entry"),
    "C19-M5": ("stores from a function body into an earlier-line variable go to a capture slot", "a variable declared on an earlier line, a function on a later line assigning to it, a call and a read"),
    "C19-M6": ("an entry that raises gives back its inline cache slots while its definitions stay alive", "an entry that defines something with a call site and then raises, and a later call into that definition"),
    "C20-M4": ("threshold check on the non-object path skipped when the nursery is empty", "a phase that allocates only raw buffers (fibers) and no object"),
    "C20-M5": ("vector handle size() uses len instead of cap", "lists allocated with capacity much larger than length (collected with a size hint)"),
    "C20-M6": ("cached old-generation size updated with += promoted after a full sweep", "objects promoted, dead, released by a full collection, followed by nursery collections"),
    # ---- third round (worktrees /tmp/wt3_<P>), stored as M7..M9
    "C04-M7": ("pause_unwind re-captures the top frames' instruction pointers on the second pause of one unwind", "a catch clause whose filter rejects the error followed by a matching handler in a shallower call frame"),
    "C04-M8": ("stack depth walk no longer records the depth at a catch label", "a try ending in break/continue inside a loop with >= 2 body locals, the catch clause holding the deepest expression, in the root function of a launched fiber (exactly sized stack)"),
    "C04-M9": ("is_subclass compares interned class names instead of class identity", "two distinct Error subclasses with the same name (two modules, or a local class shadowing a module one) meeting at a catch filter"),
    "C07-M7": ("close() drops the buffered values when receivers are registered", "a buffered channel holding values, a registered receive waiter, then close()"),
    "C07-M8": ("get_runnable folds eagerly and pops a waiter of every used channel", "a completing or parking fiber that used >= 2 channels which each have a runnable waiter"),
    "C07-M9": ("complete() no longer clears the waiter's runnable flag", "a completed fiber with a leftover waiter registration on a channel that is scanned later"),
    "C08-M7": ("close() clears the send waiter list", "senders sleeping on a channel when another fiber closes it"),
    "C08-M8": ("run queue served last-in first-out", "two fibers that keep waking each other while a third one is queued (starvation, then a hang or a spurious deadlock)"),
    "C08-M9": ("a refused wake-up of an importing/pending parent erases its pending state", "a parent waiting for a child while a second child completes first"),
    "C09-M7": ("intern table looked up with a helper hash that differs from the table's own hasher", "more than about 7000 strings interned so that the table grows and re-buckets, then an equal string created afterwards"),
    "C09-M8": ("intern key of long strings compares only a sample of the text", "two different strings of equal length > 128 bytes that differ only in the middle"),
    "C09-M9": ("compiler roots only walk one level of enclosing compilers", "a collection during compilation of a doubly nested function in an imported module, module-level constants otherwise unreferenced"),
    "C10-M7": ("sort returns its receiver for lists of 0 or 1 elements", "sort on a list with at most one element whose result is compared with or mutated besides the receiver"),
    "C10-M8": ("the map iterator recycles the [key, value] list it hands out", "a map with >= 2 entries and an entry kept after the iterator advances"),
    "C10-M9": ("a map no longer traces its keys", "a key object referenced only by the map, a collection, then a same-size allocation and a lookup or a walk"),
    "C13-M7": ("an invoke cache hit skips the arity check", "a cached call site that is reached again with a wrong argument count"),
    "C13-M8": ("inline cache capped at 256 slots, indexes taken modulo", "a module with more than 256 property or invoke sites"),
    "C13-M9": ("super-invoke sites treated as monomorphic", "a class factory: one super site executed for instances of classes with different superclasses"),
    "C14-M7": ("list growth rounded to whole pages, so capacity depends on size_of::<Value>()", "a list of >= 256 elements grown through an alias, a second non-stack reference, then an identity check"),
    "C14-M8": ("boxing a number adds 0.0", "a negative zero whose sign is observed (printing, 1/x) in the NaN-boxed build"),
    "C14-M9": ("enum PartialEq drops the Undefined arm", "a run-time read of a module variable that is declared but not initialised yet (file mode, late-bound global)"),
    "C17-M7": ("module attached to the package tree before its file is read", "a failed import that the session survives (prompt), then a second import of the same path"),
    "C17-M8": ("finishing module fiber skips waking the importer when it also woke a channel waiter", "a module body that uses a channel with a runnable waiter still parked on it when the body ends"),
    "C17-M9": ("export snapshots the value at the export statement", "export let x = placeholder, then a reassignment of x by the module, then any import reading it"),
    "C19-M7": ("script end detected by 'fiber has no parent' instead of 'is the main fiber'", "prompt: a line abandoned with its fiber parked on a channel, a later line sending to that channel with work left"),
    "C19-M8": ("stale waiter guard compares with the current fiber instead of is_running()", "prompt: a returned entry's fiber with a leftover registration on a channel whose waiters are scanned later"),
    "C19-M9": ("the Exit instruction completes the top-level fiber and drops the waiter complete() returns", "prompt: two fibers of earlier lines parked on one channel and a line that sends once and closes"),
    "C20-M7": ("a fiber deduplicates only against its last 8 used channels", "a long-lived fiber cycling through more than 8 channels"),
    "C20-M8": ("strings longer than 4096 bytes bypass the intern table", "the same text > 4096 bytes produced twice while both are live"),
    "C20-M9": ("objects of >= 4096 bytes allocated straight into the old generation", "short-lived large objects produced in volume between full collections"),
    "C20-M10": ("collection threshold computed before the non-object heap is swept", "raw buffers outweighing objects after a collection (deep call stack or hundreds of parked fibers)"),
    # ---- fourth round (worktrees /tmp/wt4_<P>, four properties), stored as M11..M13
    "C10-M11": ("forwarding chains are resolved one hop only", "one native call that makes a list move three times (a push of 13+ values), the list then used as a map key or stored two levels deep, a scanning list native, then the lookup"),
    "C10-M12": ("List.insert rescans the stack before it inserts instead of after", "an exactly full list grown by insert, used as a map key or handed to another fiber before the next scanning native, then the lookup"),
    "C10-M13": ("re-declaring an inherited field gives it a second slot", "a subclass init that assigns a field the base init already declares and adds a new one, the field accessed from a base-class method and by name"),
    "C13-M11": ("module cache vector loses its alignment after an import that fails to compile", "the prompt: an import of a file that does not compile, then a good import and any site inside that module"),
    "C13-M12": ("self.a.x keeps the lexical class's compile-time slot for x", "a method reading self.<a>.<x> where x is also a field of the enclosing class and self.<a> holds an instance of another class with x elsewhere"),
    "C13-M13": ("re-declaring an inherited field moves it to a slot shared with the next new field", "a subclass init assigning an inherited field again plus a new field, read by name and through a superclass method"),
    "C17-M11": ("the loader remembers module files it did not find", "the prompt: an import of a missing module, the session then writes the file itself, a second import of the same path"),
    "C17-M12": ("an export named like a method every object has is left out of the module object", "an exported function named str / equals / cls reached through the whole-module form"),
    "C17-M13": ("off-by-one in the instance field limit", "a module with exactly 256 exports imported in whole-module form"),
    "C20-M11": ("dead classes are released without dropping their payload (method and field tables leak)", "classes that die: a class declaration executed repeatedly in a long run"),
    "C20-M12": ("the old generation is swept only once it has doubled since the last sweep of any kind", "objects that survive one collection and then die, produced continuously under the shipped schedule"),
    "C04-M11": ("continue_unwind no longer clears the 'selecting a clause' flag", "a callback run by native code holding a try whose filters all reject the error, and a matching try outside the native call"),
    "C04-M12": ("break/continue pop the handlers of all open tries, not only of those begun inside the loop", "a loop inside a try block of the same function, a break or continue that executes, then an error or the normal end of that try block"),
    "C05-M11": ("a list's forwarding chain marks only the first and the live block", "a list held outside the running fiber's stack that moved at least twice through that reference, a collection, later use"),
    "C05-M12": ("chain iterator stops tracing the parts it has drained while size_hint still reads them", "a chain advanced by hand past its first part, a collection, then len() or list() on it"),
    "C05-M13": ("a running compilation keeps only itself and its direct parent alive", "function nesting of depth >= 3 and a collection triggered by an allocation of the innermost compiler"),
    "C09-M11": ("a buffered channel stops marking the wrapped part of its ring buffer", "a buffered channel whose ring has wrapped, computed strings in the wrapped part, a collection, then an equal string compared with the received one"),
    "C14-M11": ("NaN-boxed Display prints whole numbers through i64", "a whole number of magnitude >= 2^63 or a negative zero named in a native's error message (absent map key)"),
    "C14-M12": ("NaN-boxed Value::kind() is off by one at the sign bit", "a negative zero produced at run time that is printed, converted or used as a key"),
    "C19-M11": ("names of earlier prompt entries are not captured by the first nesting level only", "a variable of an earlier line read by a lambda nested inside a function of a later line, then a call"),
    "C19-M12": ("cache slot numbering continues from the most recently registered module", "an import of a file module at the prompt, a call-site function before and another after it, called with one class and different methods"),
}


# seeded changes that no longer manifest on /repo HEAD: their own demonstration passes with the change applied
SUPERSEDED = {
    "C19-M8": "no longer manifests on /repo HEAD: repair 022d5cc hands out every waiter of the channels a prompt entry used when the entry ends, which also removes the registration the entry's own fiber left behind, so no later wake-up scan finds a dead entry; the agent's demonstration passes with the change applied on 022d5cc and on HEAD and fails on 022d5cc^ (re-confirmed in a scratch worktree: the change was written and first confirmed on the tree before that repair)",
    "C07-M6": "no longer manifests on /repo HEAD: repair 47a4cd1 (the queue releases the sender whose value was taken and drops its other registrations) removes the stale registrations this change needs; the agent's demonstration passes with the change applied. It was caught by C08 (spurious deadlock, stale-sender pattern) on the tree it was written against",
    "C10-M6": "no longer manifests on /repo HEAD: repair fb184ed makes natives hand out the current block of a list, so the 'born forwarded' searched value this change needs does not exist any more; the agent's demonstration passes with the change applied",
    "C19-M9": "no longer manifests on /repo HEAD: repair 022d5cc hands out every runnable waiter when a prompt entry ends, so the waiter this change drops is already queued; the agent's demonstration passes with the change applied",
}
NOT_CAUGHT_REASON = {
}


def parse_eval(path):
    results = {}
    current = None
    for line in open(path):
        match = re.match(r"== (C\d+) (?:(wt\d?) )?MUTANT(\d|_EXTRA)", line)
        if match:
            offset = {None: 0, "wt": 0, "wt2": 3, "wt3": 6, "wt4": 10}[match.group(2)]
            number = 4 if match.group(3) == "_EXTRA" else int(match.group(3))
            current = "%s-M%d" % (match.group(1), offset + number)
            results[current] = []
        elif current and (re.match(r"C\d+ exit=", line) or line.startswith("NOTE")):
            results[current].append(line.strip()[:700])
    return results


def main():
    logs = sys.argv[1:]
    # later logs override earlier ones, per (change, check)
    merged = {}
    for log in logs:
        for key, lines in parse_eval(log).items():
            for line in lines:
                if line.startswith("NOTE") or " exit=2 " in line:
                    continue
                merged.setdefault(key, {})[line.split()[0]] = line
    evals = {key: [per_check[check] for check in sorted(per_check)] for key, per_check in merged.items()}
    os.makedirs(SEEDED, exist_ok=True)
    rows = []
    rounds = [("wt", 0, "/tmp/confirm"), ("wt2", 3, "/tmp/confirm2"), ("wt3", 6, "/tmp/confirm3"), ("wt4", 10, "/tmp/confirm4")]
    for prop in ["C04", "C05", "C07", "C08", "C09", "C10", "C13", "C14", "C17", "C19", "C20"]:
      for prefix, offset, confirm_dir in rounds:
        for n, dirname in ((1, "MUTANT1"), (2, "MUTANT2"), (3, "MUTANT3"), (4, "MUTANT_EXTRA")):
            source = "/tmp/%s_%s/%s" % (prefix, prop, dirname)
            key = "%s-M%d" % (prop, offset + n)
            if not os.path.exists(os.path.join(source, "patch.diff")):
                continue
            target = os.path.join(SEEDED, key)
            shutil.rmtree(target, ignore_errors=True)
            os.makedirs(target)
            for name in sorted(os.listdir(source)):
                path = os.path.join(source, name)
                if os.path.isfile(path) and os.path.getsize(path) < 200000:
                    shutil.copy(path, os.path.join(target, name))
            confirm = {}
            confirm_path = "%s/%s_M%d.json" % (confirm_dir, prop, n)
            if os.path.exists(confirm_path):
                try:
                    text = open(confirm_path).read()
                    confirm = json.loads(text[text.index("{"):])
                except ValueError:
                    confirm = {"error": "unparsable confirmation output"}
            lines = evals.get(key, [])
            caught = [line for line in lines if re.search(r"exit=1 violations=[1-9]", line)]
            caught_by = sorted(set(line.split()[0] for line in caught))
            mechanism, needs = NOTES.get(key, ("", ""))
            meta = {
                "id": key,
                "breaks_property": prop,
                "written_by": "independent sub-agent that saw only the property text and its own scratch worktree",
                "mechanism": mechanism,
                "needs_to_manifest": needs,
                "base_commit": ("patch.diff is the agent's original (written against %s); a later repair touches the same lines, patch_head.diff is "
                                "the same change carried over to /repo HEAD and is what was evaluated" % ("e63ffed" if prefix == "wt3" else "b751187"))
                               if os.path.exists(os.path.join(source, "patch_head.diff")) else "applies to /repo HEAD",
                "independent_confirmation": {
                    "patch_applies": confirm.get("patch_applies"),
                    "builds": confirm.get("builds"),
                    "pinned_suite_only_baseline_failures": confirm.get("suite_only_baseline_failures"),
                    "demonstration": confirm.get("demo_kind"),
                    "demonstration_discriminates": confirm.get("demo_discriminates"),
                    "clean_tree": confirm.get("clean_tree"),
                    "with_patch": confirm.get("with_patch"),
                    "note": confirm.get("note"),
                    "command": "tools/confirm_mutant.py /tmp/%s_%s %s" % (prefix, prop, source),
                },
                "checks_run": ["tools/eval_mutant.py /tmp/%s_%s <patch> <check>   (quick tier unless the result line says otherwise, VERIF_SEED=1)" % (prefix, prop)],
                "results": lines,
                "caught": bool(caught),
                "caught_by": caught_by,
                "superseded": SUPERSEDED.get(key),
                "not_caught_because": NOT_CAUGHT_REASON.get(key) if not caught else None,
            }
            with open(os.path.join(target, "meta.json"), "w") as handle:
                json.dump(meta, handle, indent=1)
                handle.write("\n")
            clauses = ""
            if caught:
                found = re.search(r"\[(.*?)\] \|", caught[0])
                clauses = found.group(1)[:160] if found else ""
            verdict = "caught by %s: %s" % (", ".join(caught_by), clauses) if caught else "NOT caught"
            if not caught and key in SUPERSEDED:
                verdict = "superseded: " + SUPERSEDED[key]
            elif not caught and key in NOT_CAUGHT_REASON:
                verdict = "NOT caught: " + NOT_CAUGHT_REASON[key]
            rows.append((key, mechanism, verdict,
                         "yes" if confirm.get("suite_only_baseline_failures") and confirm.get("demo_discriminates") else str(confirm.get("suite_only_baseline_failures")) + "/" + str(confirm.get("demo_discriminates"))))
    with open(os.path.join(SEEDED, "README.md"), "w") as handle:
        handle.write("# Seeded property-breaking changes\n\nEach directory holds a change written by an independent sub-agent (it saw one property's text and a scratch "
                     "worktree, nothing from /verif): `patch.diff`, its demonstration, its own README and `meta.json`. Every change compiles and "
                     "passes the pinned suite; every demonstration passes on the clean tree and fails with the change (re-confirmed with "
                     "`tools/confirm_mutant.py`). Results are for the quick tier at `VERIF_SEED=1` (a result line names the tier when it is another one), evaluated with `tools/eval_mutant.py` on top of "
                     "the repaired `/repo` HEAD (a change that a later repair conflicts with was carried over by hand: `patch_head.diff`). Rounds 1-3 "
                     "(M1-M10) were evaluated with `/repo` at af5bbd0 and the harness of that moment, round 4 (M11-M13) with `/repo` at 7908ebf and "
                     "the final harness; the logs are in `eval_logs/`. `superseded` = the change no longer manifests on HEAD (its own "
                     "demonstration passes with the change applied) because a later repair removed what it needs.\n\n")
        handle.write("| id | mechanism | result | suite green + demo discriminates (re-confirmed) |\n|---|---|---|---|\n")
        for row in rows:
            handle.write("| %s | %s | %s | %s |\n" % row)
    print("%d seeded changes assembled, %d caught, %d superseded, %d not caught" % (
        len(rows), sum(1 for row in rows if row[2].startswith("caught")), sum(1 for row in rows if row[2].startswith("superseded")),
        sum(1 for row in rows if row[2].startswith("NOT"))))
    for row in rows:
        if not row[2].startswith("caught"):
            print("  ", row[0], row[2][:100])


if __name__ == "__main__":
    main()
